import GwcsModel.Basic
import GwcsModel.Remap
/-!
# WCS builders (C20)

`fitswcs_linear` (gwcs/utils.py): translation by `-(CRPIX - 1)`, the 2x2 sky part of the PC (or CD) matrix, CDELT scaling only when
the header has no CD matrix; the FITS default for LONPOLE that `_compute_lon_pole` obtains from wcslib.
-/
namespace Gwcs.Builders

structure Lin where
  crpix1 : Rat
  crpix2 : Rat
  m11 : Rat
  m12 : Rat
  m21 : Rat
  m22 : Rat
  cdelt1 : Rat
  cdelt2 : Rat
  hasCD : Bool

/-- `Shift(-(crpix - 1))` on each axis -/
def translation (l : Lin) (p : Rat × Rat) : Rat × Rat := (p.1 + -(l.crpix1 - 1), p.2 + -(l.crpix2 - 1))

/-- `AffineTransformation2D(matrix=pc)` -/
def rotation (l : Lin) (p : Rat × Rat) : Rat × Rat := (l.m11 * p.1 + l.m12 * p.2, l.m21 * p.1 + l.m22 * p.2)

/-- `Scale(cdelt_i)` on each axis -/
def scaling (l : Lin) (p : Rat × Rat) : Rat × Rat := (l.cdelt1 * p.1, l.cdelt2 * p.2)

/-- `translation | rotation | scaling` without CD, `translation | rotation` with CD -/
def fitswcsLinear (l : Lin) (p : Rat × Rat) : Rat × Rat :=
  if l.hasCD then rotation l (translation l p) else scaling l (rotation l (translation l p))

/-- the 2x2 block of an n x n PC matrix for the sky axes (i, j) -/
def skyBlock (pc : Nat → Nat → Rat) (i j : Nat) : Rat × Rat × Rat × Rat := (pc i i, pc i j, pc j i, pc j j)

/-- `sumTo n f = f 0 + ... + f (n-1)` -/
def sumTo : Nat → (Nat → Rat) → Rat
  | 0, _ => 0
  | n + 1, f => sumTo n f + f n

/-- FITS paper I, eq. (1)-(3) for an n-axis header in PC form: intermediate world coordinate of axis `i` at 0-based pixel `p` -/
def fitsLinearND (n : Nat) (crpix cdelt : Nat → Rat) (pc : Nat → Nat → Rat) (p : Nat → Rat) (i : Nat) : Rat :=
  cdelt i * sumTo n (fun k => pc i k * (p k - (crpix k - 1)))

/-- the `Lin` that `fitswcs_linear` builds for the sky axes (i, j) of an n-axis PC header -/
def skyLin (crpix cdelt : Nat → Rat) (pc : Nat → Nat → Rat) (i j : Nat) : Lin :=
  let b := skyBlock pc i j
  ⟨crpix i, crpix j, b.1, b.2.1, b.2.2.1, b.2.2.2, cdelt i, cdelt j, false⟩

/-! ## the linear matrix as `read_wcs_from_header` assembles it -/

/-- any `CDi_j` card makes it the CD form -/
def hasCD (cd : List Remap.Card) : Bool := !cd.isEmpty

/-- element (i, j) (1-based) of the matrix read from a header holding the cards `cd` and `pc`: with any CD card present the CD cards
count and a missing one is zero; otherwise the PC cards count and a missing one is the unit-matrix element -/
def headerMatrix (cd pc : List Remap.Card) (i j : Nat) : Rat :=
  if hasCD cd then Remap.readM .CD cd i j else Remap.readM .PC pc i j

/-- FITS Paper II default: LONPOLE = phi0 when the fiducial latitude is at least theta0, else phi0 + 180 -/
def lonpoleDefault (phi0 theta0 lat : Rat) : Rat := if lat ≥ theta0 then phi0 else phi0 + 180

end Gwcs.Builders
