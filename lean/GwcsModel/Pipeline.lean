/-
  GwcsModel.Pipeline — model of the pipeline bookkeeping of gwcs/wcs.py:
  frame lookup, forward_transform, get_transform, set_transform, insert_transform,
  insert_frame, the bounding-box property (the box lives on the transform object of step 0),
  fix_inputs' re-wrapping of step 0.

  Generic in the transform type `T` (operations `TOps T`): theorems quantify over arbitrary
  transforms; the driver instantiates `T := TObj` (a `TExpr` plus the box attached to that object).
-/
import GwcsModel.TExpr
import GwcsModel.Generated.ReadOnly

namespace Gwcs.Pipe

/-- A frame as the pipeline sees it: a name, and the identity of the frame object if it is one
    (`none` = a bare string). -/
structure FrameRef where
  name : String
  obj : Option Nat
  deriving Repr, BEq, DecidableEq, Inhabited

structure Step (T : Type) where
  frame : FrameRef
  tr : Option T
  deriving Repr, Inhabited

/-- What gwcs needs from astropy models: `|` (may fail: arity) and `.inverse` (may fail). -/
structure TOps (T : Type) where
  comp : T → T → Except Err T
  inv : T → Except Err T

abbrev Pipeline (T : Type) := List (Step T)

def names {T} (p : Pipeline T) : List String := p.map (·.frame.name)

/-- `_get_frame_index`: first step whose frame name matches; `CoordinateFrameError` otherwise. -/
def frameIndex {T} (p : Pipeline T) (name : String) : Except Err Nat :=
  match (names p).idxOf? name with
  | some i => .ok i
  | none => .error .frameErr

/-- Python `a | b` on possibly-`None` operands. -/
def pyOr {T} (ops : TOps T) (a b : Option T) : Except Err (Option T) :=
  match a, b with
  | some a, some b => (ops.comp a b).map some
  | _, _ => .error .typeErr

/-- `functools.reduce(lambda x, y: x | y, l)` (no initial value: empty list is a `TypeError`). -/
def reduceOr {T} (ops : TOps T) : List (Option T) → Except Err (Option T)
  | [] => .error .typeErr
  | a :: r => r.foldlM (pyOr ops) a

/-- `forward_transform`: reduce over all steps but the last; `None` for an empty pipeline. -/
def forwardTransform {T} (ops : TOps T) (p : Pipeline T) : Except Err (Option T) :=
  if p.isEmpty then .ok none else reduceOr ops ((pySlice p 0 (-1)).map (·.tr))

/-- `tr.inverse` on a possibly-`None` transform (`None.inverse` is an `AttributeError`). -/
def pyInverse {T} (ops : TOps T) : Option T → Except Err (Option T)
  | some t => (ops.inv t).map some
  | none => .error .other

/-- `get_transform(from, to)` on frame *names* (objects are resolved to names first). -/
def getTransform {T} (ops : TOps T) (p : Pipeline T) (fromF toF : String) : Except Err (Option T) := do
  if p.isEmpty then return none
  let fi ← frameIndex p fromF
  let ti ← frameIndex p toF
  if ti < fi then
    let trs := (pySlice p ti fi).map (·.tr)
    let invs ← trs.reverse.mapM (pyInverse ops)
    reduceOr ops invs
  else if ti = fi then return none
  else reduceOr ops ((pySlice p fi ti).map (·.tr))

/-- `set_transform`. -/
def setTransform {T} (p : Pipeline T) (fromF toF : String) (tr : Option T) : Except Err (Pipeline T) := do
  let fi ← frameIndex p fromF
  let ti ← frameIndex p toF
  if fi + 1 ≠ ti then throw .valueErr
  match tr with
  | none => throw .typeErr           -- not a Model: rejected by the Step.transform setter
  | some tr => return p.modify fi (fun s => { s with tr := some tr })

/-- `insert_transform`: note `pipeline[frame_ind - 1]` is Python indexing, so at `frame_ind = 0`
    it addresses the *last* step. -/
def insertTransform {T} (ops : TOps T) (p : Pipeline T) (frame : String) (tr : Option T) (after : Bool) :
    Except Err (Pipeline T) := do
  let fi ← frameIndex p frame
  if !after then
    match pyIndex p.length ((fi : Int) - 1) with
    | none => throw .indexErr
    | some k =>
      let cur := (p[k]?).bind (·.tr)
      let new ← pyOr ops cur tr
      return p.modify k (fun s => { s with tr := new })
  else
    let cur := (p[fi]?).bind (·.tr)
    let new ← pyOr ops tr cur
    return p.modify fi (fun s => { s with tr := new })

/-- attribute table: `setattr(self, name, frame_obj)` in insertion order of first assignment -/
abbrev Attrs := List (String × Option Nat)

def setAttr (a : Attrs) (name : String) (v : Option Nat) : Attrs :=
  if a.any (·.1 == name) then a.map (fun kv => if kv.1 == name then (name, v) else kv) else a ++ [(name, v)]

/-- `insert_frame`. Returns the new pipeline and the attribute assignment it performs. -/
def insertFrame {T} (p : Pipeline T) (inF : FrameRef) (tr : Option T) (outF : FrameRef) :
    Except Err (Pipeline T × (String × Option Nat)) := do
  let ii : Option Nat := (frameIndex p inF.name).toOption
  if ii.isNone ∧ inF.obj.isNone then throw .valueErr
  let oi : Option Nat := (frameIndex p outF.name).toOption
  if oi.isNone ∧ outF.obj.isNone then throw .valueErr
  match ii, oi with
  | some _, some _ => throw .valueErr
  | none, none => throw .valueErr
  | none, some o =>
    match tr with
    | none => throw .typeErr
    | some tr => return (pySlice p 0 o ++ [⟨inF, some tr⟩] ++ p.drop o, (inF.name, inF.obj))
  | some i, none =>
    match p[i]? with
    | none => throw .indexErr
    | some split =>
      match tr with
      | none => throw .typeErr
      | some tr =>
        return (pySlice p 0 i ++ [⟨split.frame, some tr⟩, ⟨outF, split.tr⟩] ++ p.drop (i + 1),
                (outF.name, outF.obj))

/-! ### The driver's transform objects: a `TExpr` plus the bounding box attached to *that object* -/

abbrev Box := List (Rat × Rat)

structure TObj where
  e : TExpr
  bbox : Option Box
  deriving Repr, BEq, Inhabited

/-- a compound model is a new object without a box of its own -/
def tobjOps : TOps TObj where
  comp a b := (TExpr.mkComp a.e b.e).map (fun e => ⟨e, none⟩)
  inv a := (a.e.inverse).map (fun e => ⟨e, none⟩)

/-- `ModelBoundingBox.validate(transform_0, value, order='F')`: a tuple of `n_inputs` intervals (a bare
    interval when `n_inputs = 1` is normalised by the harness to a one-element list). -/
def validateBox (nin : Nat) (v : Box) : Except Err Box :=
  if v.length = nin then .ok v else .error .valueErr

/-- `WCS.bounding_box` getter: the box of the transform object of step 0. -/
def getBBox (p : Pipeline TObj) : Except Err (Option Box) :=
  match p with
  | s0 :: _ :: _ =>
    match s0.tr with
    | some t => .ok t.bbox
    | none => .error .other
  | _ => .error .indexErr

/-- `WCS.bounding_box` setter (`None` removes the box). -/
def setBBox (p : Pipeline TObj) (v : Option Box) : Except Err (Pipeline TObj) :=
  match p with
  | s0 :: s1 :: r =>
    match s0.tr with
    | none => .error .other
    | some t => do
      let b ← match v with
        | none => pure none
        | some v => (validateBox t.e.nin v).map some
      pure (⟨s0.frame, some ⟨t.e, b⟩⟩ :: s1 :: r)
  | _ => .error .indexErr

/-- Whole WCS state observed by C07/C08. -/
structure WState where
  pipe : Pipeline TObj
  attrs : Attrs
  deriving Repr, Inhabited

inductive Op where
  | setTransform (fromF toF : String) (tr : Option TExpr)
  | insertTransform (frame : String) (tr : Option TExpr) (after : Bool)
  | insertFrame (inF : FrameRef) (tr : Option TExpr) (outF : FrameRef)
  | setBBox (v : Option Box)
  deriving Repr, Inhabited

/-- One edit; on error the state is returned unchanged together with the error. -/
def step (s : WState) : Op → Except Err WState
  | .setTransform f t tr => do
      let p ← setTransform s.pipe f t (tr.map (fun e => ⟨e, none⟩))
      pure { s with pipe := p }
  | .insertTransform f tr after => do
      let p ← insertTransform tobjOps s.pipe f (tr.map (fun e => ⟨e, none⟩)) after
      pure { s with pipe := p }
  | .insertFrame i tr o => do
      let (p, (n, v)) ← insertFrame s.pipe i (tr.map (fun e => ⟨e, none⟩)) o
      if readOnlyNames.contains n then throw .other
      pure { pipe := p, attrs := setAttr s.attrs n v }
  | .setBBox v => do
      let p ← setBBox s.pipe v
      pure { s with pipe := p }

def initState (frames : List FrameRef) (trs : List (Option TExpr)) : WState :=
  let pipe := (frames.zip trs).map (fun (f, t) => (⟨f, t.map (fun e => ⟨e, none⟩)⟩ : Step TObj))
  { pipe := pipe, attrs := frames.foldl (fun a f => setAttr a f.name f.obj) [] }

end Gwcs.Pipe
