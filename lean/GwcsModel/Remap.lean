/-
  GwcsModel.Remap — the linear-matrix bookkeeping of `WCS._to_fits_sip(keep_axis_position=True)` (gwcs/wcs.py):
  the 2x2 celestial block fitted for (lon, lat) x (first, second celestial pixel axis) is written under the ORIGINAL FITS axis numbers
  `PC<nlon>_<iax1>` ... `PC<nlat>_<iax2>` (or `CD...` when SIP terms are present), and, in the PC formalism - where a reader fills a
  missing `PCi_j` with the Kronecker delta - an explicit `PC<n>_<n> = 0` is added for a celestial world axis whose number is not one of
  the two pixel-axis numbers.  `readM` is the reader's rule (FITS paper I: PC defaults to the unit matrix, CD to zero).
-/
namespace Gwcs.Remap

inductive Kind where | PC | CD
  deriving Repr, DecidableEq, Inhabited

/-- 1-based FITS axis numbers: celestial world axes and the two pixel axes the pair depends on. -/
structure Ax where
  nlon : Nat
  nlat : Nat
  iax1 : Nat
  iax2 : Nat
  deriving Repr, DecidableEq, Inhabited

/-- a matrix card: row (world axis), column (pixel axis), value -/
abbrev Card := Nat × Nat × Rat

/-- The matrix cards of the header. `b r c`: r = 0 (lon) / 1 (lat), c = 0 (iax1) / 1 (iax2). -/
def cards (k : Kind) (a : Ax) (b : Nat → Nat → Rat) : List Card :=
  [(a.nlon, a.iax1, b 0 0), (a.nlon, a.iax2, b 0 1), (a.nlat, a.iax1, b 1 0), (a.nlat, a.iax2, b 1 1)]
  ++ (if k = .PC ∧ a.nlon ≠ a.iax1 ∧ a.nlon ≠ a.iax2 then [(a.nlon, a.nlon, 0)] else [])
  ++ (if k = .PC ∧ a.nlat ≠ a.iax1 ∧ a.nlat ≠ a.iax2 then [(a.nlat, a.nlat, 0)] else [])

/-- The matrix element a standard reader uses: the card if present, else the formalism's default. -/
def readM (k : Kind) (cs : List Card) (i j : Nat) : Rat :=
  match cs.find? (fun c => c.1 == i && c.2.1 == j) with
  | some c => c.2.2
  | none => match k with
    | .PC => if i = j then 1 else 0
    | .CD => 0

/-- the cards without the explicit zero of the latitude row (what a header looks like when that step is skipped) -/
def cardsNoLatZero (k : Kind) (a : Ax) (b : Nat → Nat → Rat) : List Card :=
  [(a.nlon, a.iax1, b 0 0), (a.nlon, a.iax2, b 0 1), (a.nlat, a.iax1, b 1 0), (a.nlat, a.iax2, b 1 1)]
  ++ (if k = .PC ∧ a.nlon ≠ a.iax1 ∧ a.nlon ≠ a.iax2 then [(a.nlon, a.nlon, 0)] else [])

end Gwcs.Remap
