/-
  GwcsModel.Frames — axis bookkeeping of `CompositeFrame` (gwcs/coordinate_frames.py): scatter of
  per-axis metadata by `axes_order`, gathering of world values into per-frame objects
  (`coordinates`), scattering back (`coordinate_to_quantity`), object components, and the renaming
  of duplicate class keys.
-/
import GwcsModel.Basic

namespace Gwcs.Frames

/-- `out[i] = v` for every `(i, v)`, in order -/
def scatterPairs {β} (init : List β) (pairs : List (Nat × β)) : List β :=
  pairs.foldl (fun acc p => acc.set p.1 p.2) init

structure SubFrame (M : Type) where
  axesOrder : List Nat          -- world axis of each local axis
  info : List M                 -- per local axis: (type, unit, name, physical type) payload
  keys : List String            -- keys of `_world_axis_object_classes`
  comps : List (String × Nat)   -- per local axis: (class key, position inside that object)
  deriving Repr

def naxesOf {M} (frames : List (SubFrame M)) : Nat := (frames.map (fun f => f.axesOrder.length)).foldl (· + ·) 0

def allAxes {M} (frames : List (SubFrame M)) : List Nat := frames.flatMap (·.axesOrder)

/-- `CompositeFrame.__init__`: duplicate axis numbers are rejected; metadata is scattered by axis index -/
def compositeMeta {M} (frames : List (SubFrame M)) (dflt : M) : Except Err (List M) :=
  if (allAxes frames).Nodup then
    .ok (scatterPairs (List.replicate (naxesOf frames) dflt) (frames.flatMap (fun f => f.axesOrder.zip f.info)))
  else .error .valueErr

/-- `CompositeFrame.coordinates(*args)` with one argument per world axis: every sub-frame is handed
    the arguments at its own `axes_order` positions (one "object" = the list of values it receives) -/
def coordinates {M α} (frames : List (SubFrame M)) (args : List α) : List (List (Option α)) :=
  frames.map (fun f => f.axesOrder.map (fun i => args[i]?))

/-- `CompositeFrame.coordinate_to_quantity(*objects)`: every object's values go back to its frame's
    world-axis positions -/
def coordinateToQuantity {M α} (frames : List (SubFrame M)) (objs : List (List (Option α))) : List (Option α) :=
  scatterPairs (List.replicate (naxesOf frames) none) ((frames.zip objs).flatMap (fun fo => fo.1.axesOrder.zip fo.2))

/-- first candidate `key, key{count}, key{count+1}, …` not in `used` -/
def pickFresh (key : String) (count : Nat) (used : List String) : Option String :=
  if used.contains key then
    ((List.range (used.length + 1)).map (fun k => key ++ toString (max count 1 + k))).find? (fun c => !used.contains c)
  else some key

/-- `_wao_classes_rename_map` (after the D27 fix): returns, frame by frame, the final keys -/
def renameKeys (keyss : List (List String)) : Option (List (List String)) :=
  let step (st : Option (List String × List String × List (List String))) (keys : List String) :=
    st.bind (fun (seen, used, out) =>
      let r := keys.foldl (fun (acc : Option (List String × List String × List String)) key =>
        acc.bind (fun (seen, used, cur) =>
          (pickFresh key (seen.count key) used).map (fun nk => (seen ++ [key], used ++ [nk], cur ++ [nk])))) (some (seen, used, []))
      r.map (fun (seen, used, cur) => (seen, used, out ++ [cur])))
  (keyss.foldl step (some ([], [], []))).map (·.2.2)

/-- `_world_axis_object_components`: `out[ao] = renamed component of local axis i` -/
def components {M} (frames : List (SubFrame M)) (renamed : List (List String)) : List (Option (String × Nat)) :=
  let pairs := (frames.zip renamed).flatMap (fun fr =>
    fr.1.axesOrder.zip (fr.1.comps.map (fun c =>
      let k := match fr.1.keys.idxOf? c.1 with
        | some j => (fr.2[j]?).getD c.1
        | none => c.1
      some (k, c.2))))
  scatterPairs (List.replicate (naxesOf frames) none) pairs

end Gwcs.Frames
