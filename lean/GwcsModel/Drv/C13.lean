import GwcsModel.Api
import GwcsModel.Pipeline
open Lean
namespace Gwcs.Drv.C13
open Gwcs Gwcs.Api Gwcs.Pipe

def ptsJson (l : List Rat) : Json := listToJson ratToJson l

def parseShapeOp (j : Json) : Option ShapeOp := do
  let v : Option (List Nat) ← match jFieldD j "v" Json.null with
    | .null => pure none
    | x => (jList jNat x).map some
  match ← jStr (← jField j "k") with
  | "pixel" => pure (.setPixelShape v)
  | "array" => pure (.setArrayShape v)
  | _ => none

def optShape (s : Option (List Nat)) : Json :=
  match s with | none => Json.null | some l => listToJson natToJson l

/-- {"op":"api","trs":[texpr..],"pts":[[..]],"world":[[..]]} -/
def handleApi (j : Json) : Json :=
  match (do
    let trs ← jList TExpr.ofJson (← jField j "trs")
    let pts ← jList (jList jRat) (jFieldD j "pts" (Json.arr #[]))
    let world ← jList (jList jRat) (jFieldD j "world" (Json.arr #[]))
    pure (trs, pts, world)) with
  | none => badRequest "C13 api"
  | some (trs, pts, world) =>
    match trs with
    | [] => badRequest "C13 empty"
    | t0 :: rest =>
      -- forward transform = reduce(|)
      let fwd : Except Err TExpr := rest.foldlM (fun a b => TExpr.mkComp a b) t0
      match fwd with
      | .error e => errJson e
      | .ok f =>
        let p2w := pts.map (fun p => exceptToJson ptsJson (f.eval p))
        let inv := f.inverse
        let w2p := world.map (fun w => exceptToJson ptsJson (inv.bind (fun i => i.eval w)))
        let w2ai := world.map (fun w => exceptToJson (listToJson intToJson)
          (worldToArrayIndex (fun w => inv.bind (fun i => i.eval w)) w))
        okJson (Json.mkObj [
          ("nin", natToJson f.nin), ("nout", natToJson f.nout),
          ("p2w", Json.arr p2w.toArray), ("w2p", Json.arr w2p.toArray), ("w2ai", Json.arr w2ai.toArray),
          ("corr", listToJson (listToJson Json.bool) f.depMatrix)])

/-- {"op":"shape","ndim":n,"ops":[{"k":"pixel"|"array","v":[..]|null}]} → after each op [res, pixel_shape, array_shape] -/
def handleShape (j : Json) : Json :=
  match (do
    let n ← jNat (← jField j "ndim")
    let ops ← jList parseShapeOp (← jField j "ops")
    pure (n, ops)) with
  | none => badRequest "C13 shape"
  | some (n, ops) =>
    let (_, outs) := ops.foldl (fun (acc : ShapeState × List Json) op =>
      let (s, outs) := acc
      let res := match shapeStep n s op with | .ok _ => "ok" | .error e => e.toString
      let s' := shapeStepTotal n s op
      (s', outs ++ [Json.arr #[Json.str res, optShape (pixelShape s'), optShape (arrayShape s')]])) (none, [])
    okJson (Json.arr outs.toArray)

/-- {"op":"toindex","vals":[float bits..]} -/
def handleToIndex (j : Json) : Json :=
  match jList jFloat (jFieldD j "vals" Json.null) with
  | none => badRequest "C13 toindex"
  | some vs =>
    okJson (Json.arr (vs.map (fun v =>
      let f := toIndexF v
      let q := (floatToRat v).map toIndex
      Json.arr #[match floatToInt f with | some i => intToJson i | none => Json.null,
                 match q with | some i => intToJson i | none => Json.null])).toArray)

def handle (j : Json) : Json :=
  match jStr (jFieldD j "op" Json.null) with
  | some "api" => handleApi j
  | some "shape" => handleShape j
  | some "toindex" => handleToIndex j
  | _ => badRequest "C13 op"

end Gwcs.Drv.C13
