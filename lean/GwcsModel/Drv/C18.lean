import GwcsModel.Grid
open Lean
namespace Gwcs.Drv.C18
open Gwcs Gwcs.Grid

def parseBox (j : Json) : Option (Option (List (Rat × Rat))) :=
  match j with
  | .null => some none
  | _ => (jList (fun iv => do
      match ← jArr iv with
      | [a, b] => pure ((← jRat a), (← jRat b))
      | _ => none) j).map some

def rowsJson (r : List (List Rat)) : Json := listToJson (listToJson ratToJson) r

def handleGrid (j : Json) : Json :=
  match (do
    let bb ← (← parseBox (← jField j "bb"))
    let step ← jList jRat (← jField j "step")
    let center ← jBool (← jField j "center")
    pure (bb, step, center)) with
  | none => badRequest "C18 grid"
  | some (bb, step, center) =>
    match gridAxes bb step center with
    | .error e => errJson e
    | .ok axes =>
      okJson (Json.mkObj [("axes", rowsJson axes),
        ("flat", rowsJson ((List.range axes.length).map (gridFlat axes))),
        ("shape", listToJson natToJson ((axes.map List.length).reverse))])

def handleFootprint (j : Json) : Json :=
  match (do
    let trs ← jList TExpr.ofJson (← jField j "trs")
    let bb ← parseBox (jFieldD j "bb" Json.null)
    let own ← parseBox (jFieldD j "own" Json.null)
    let center ← jBool (← jField j "center")
    let types ← jList jStr (← jField j "axes_type")
    let at' ← jStr (← jField j "axis_type")
    pure (trs, bb, own, center, types, at')) with
  | none => badRequest "C18 footprint"
  | some (trs, bb, own, center, types, at') =>
    match trs with
    | [] => badRequest "C18 empty"
    | t0 :: rest =>
      match rest.foldlM (fun a b => TExpr.mkComp a b) t0 with
      | .error e => errJson e
      | .ok f =>
        match (if (jBool (jFieldD j "raw" (Json.bool false))).getD false then footprintRaw f.eval bb own center types at'
               else footprint f.eval bb own center types at') with
        | .error e => errJson e
        | .ok (.points rows) => okJson (Json.mkObj [("points", rowsJson rows)])
        | .ok (.ranges rows) => okJson (Json.mkObj [("ranges", rowsJson rows)])
        | .ok (.range1 lo hi) => okJson (Json.mkObj [("range1", Json.arr #[ratToJson lo, ratToJson hi])])

def handleSampling (j : Json) : Json :=
  match (do
    let bb ← (← parseBox (← jField j "bb"))
    let n ← jNat (← jField j "n")
    let crpix ← jList jRat (← jField j "crpix")
    pure (bb, n, crpix)) with
  | none => badRequest "C18 sampling"
  | some (bb, n, crpix) =>
    match samplingAxes n bb crpix with
    | .error e => errJson e
    | .ok axes => okJson (Json.mkObj [("axes", rowsJson axes)])

def handle (j : Json) : Json :=
  match jStr (jFieldD j "op" Json.null) with
  | some "grid" => handleGrid j
  | some "footprint" => handleFootprint j
  | some "sampling" => handleSampling j
  | _ => badRequest "C18 op"

end Gwcs.Drv.C18
