import GwcsModel.Invert
open Lean
namespace Gwcs.Drv.C04
open Gwcs Gwcs.Inv

def fJson (f : Float) : Json := if f.isNaN then Json.str "nan" else floatToJson f

/-- {"path":"analytic"|"iterative","box":[[lo,hi]..]|null,"fill":f,"withbb":bool,"rows":[[valid, [pix..]]..]}
    → masked pixels (current-tree variant: the analytic path does not mask) and in_image per row -/
def handle (j : Json) : Json :=
  match (do
    let path ← match ← jStr (← jField j "path") with
      | "analytic" => some Path.analytic | "iterative" => some Path.iterative | _ => none
    let box : Option (List (Float × Float)) ← match jFieldD j "box" Json.null with
      | .null => pure none
      | b => (jList (fun iv => do
          match ← jArr iv with
          | [a, c] => pure ((← jFloat a), (← jFloat c))
          | _ => none) b).map some
    let fill ← jFloat (← jField j "fill")
    let wbb ← jBool (← jField j "withbb")
    let rows ← jList (fun r => do
      match ← jArr r with
      | [v, p] => pure ((← jBool v), (← jList jFloat p))
      | _ => none) (← jField j "rows")
    pure (path, box, fill, wbb, rows)) with
  | none => badRequest "C04"
  | some (path, box, fill, wbb, rows) =>
    let nan : Float := 0.0 / 0.0
    okJson (Json.mkObj [
      ("pix", listToJson (fun (r : Bool × List Float) => listToJson fJson (invert false path box wbb fill r.1 r.2)) rows),
      ("in_image", listToJson Json.bool (inImageBatch false path (fun f => f.isFinite) nan box rows))])

end Gwcs.Drv.C04
