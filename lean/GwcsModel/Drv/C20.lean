import GwcsModel.Builders
open Lean
namespace Gwcs.Drv.C20
open Gwcs Gwcs.Builders

def handle (j : Json) : Json :=
  match jStr (jFieldD j "op" Json.null) with
  | some "linear" =>
    match (do
        let crpix ← jList jRat (← jField j "crpix")
        let m ← jList jRat (← jField j "m")
        let cdelt ← jList jRat (← jField j "cdelt")
        let hasCD ← jBool (← jField j "has_cd")
        let pts ← jList (jList jRat) (← jField j "points")
        pure (crpix, m, cdelt, hasCD, pts)) with
    | some ([r1, r2], [m11, m12, m21, m22], [d1, d2], hasCD, pts) =>
      let l : Lin := ⟨r1, r2, m11, m12, m21, m22, d1, d2, hasCD⟩
      okJson (listToJson (fun (p : List Rat) => match p with
        | [x, y] => let r := fitswcsLinear l (x, y); Json.arr #[ratToJson r.1, ratToJson r.2]
        | _ => Json.null) pts)
    | _ => badRequest "C20"
  | some "lonpole" =>
    match jRat (jFieldD j "phi0" Json.null), jRat (jFieldD j "theta0" Json.null), jRat (jFieldD j "lat" Json.null) with
    | some a, some b, some c => okJson (ratToJson (lonpoleDefault a b c))
    | _, _, _ => badRequest "C20"
  | _ => badRequest "C20"

end Gwcs.Drv.C20
