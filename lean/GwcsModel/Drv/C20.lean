import GwcsModel.Builders
open Lean
namespace Gwcs.Drv.C20
open Gwcs Gwcs.Builders

def handle (j : Json) : Json :=
  match jStr (jFieldD j "op" Json.null) with
  | some "linear" =>
    match (do
        let crpix ← jList jRat (← jField j "crpix")
        let m ← jList jRat (← jField j "m")
        let cdelt ← jList jRat (← jField j "cdelt")
        let hasCD ← jBool (← jField j "has_cd")
        let pts ← jList (jList jRat) (← jField j "points")
        pure (crpix, m, cdelt, hasCD, pts)) with
    | some ([r1, r2], [m11, m12, m21, m22], [d1, d2], hasCD, pts) =>
      let l : Lin := ⟨r1, r2, m11, m12, m21, m22, d1, d2, hasCD⟩
      okJson (listToJson (fun (p : List Rat) => match p with
        | [x, y] => let r := fitswcsLinear l (x, y); Json.arr #[ratToJson r.1, ratToJson r.2]
        | _ => Json.null) pts)
    | _ => badRequest "C20"
  | some "linear_nd" =>
    -- {"n", "crpix":[..n], "cdelt":[..n], "pc":[[..n]..n], "i", "j", "points":[[..n]..]}: FITS paper I on the two celestial axes, and the
    -- transform built from the 2x2 block
    match (do
        let n ← jNat (← jField j "n")
        let crpix ← jList jRat (← jField j "crpix")
        let cdelt ← jList jRat (← jField j "cdelt")
        let pc ← jList (jList jRat) (← jField j "pc")
        let i ← jNat (← jField j "i")
        let k ← jNat (← jField j "j")
        let pts ← jList (jList jRat) (← jField j "points")
        pure (n, crpix, cdelt, pc, i, k, pts)) with
    | some (n, crpix, cdelt, pc, i, k, pts) =>
      let cr : Nat → Rat := fun a => crpix.getD a 0
      let cd : Nat → Rat := fun a => cdelt.getD a 1
      let m : Nat → Nat → Rat := fun r c => (pc.getD r []).getD c 0
      okJson (listToJson (fun (p : List Rat) =>
        let pf : Nat → Rat := fun a => p.getD a 0
        let b := fitswcsLinear (skyLin cr cd m i k) (pf i, pf k)
        Json.mkObj [("fits", Json.arr #[ratToJson (fitsLinearND n cr cd m pf i), ratToJson (fitsLinearND n cr cd m pf k)]),
                    ("block", Json.arr #[ratToJson b.1, ratToJson b.2])]) pts)
    | none => badRequest "C20 linear_nd"
  | some "header_matrix" =>
    -- {"n", "cd": [[i,j,v]..], "pc": [[i,j,v]..]}: the matrix read_wcs_from_header assembles, and whether it is the CD form
    match (do
        let n ← jNat (← jField j "n")
        let card := fun (c : Json) => do
          let l ← jArr c
          match l with
          | [a, b, v] => pure ((← jNat a, ← jNat b, ← jRat v) : Remap.Card)
          | _ => none
        let cd ← jList card (← jField j "cd")
        let pc ← jList card (← jField j "pc")
        pure (n, cd, pc)) with
    | some (n, cd, pc) =>
      okJson (Json.mkObj [("has_cd", Json.bool (hasCD cd)),
        ("matrix", listToJson (fun (i : Nat) => listToJson (fun (k : Nat) => ratToJson (headerMatrix cd pc (i + 1) (k + 1))) (List.range n)) (List.range n))])
    | none => badRequest "C20 header_matrix"
  | some "lonpole" =>
    match jRat (jFieldD j "phi0" Json.null), jRat (jFieldD j "theta0" Json.null), jRat (jFieldD j "lat" Json.null) with
    | some a, some b, some c => okJson (ratToJson (lonpoleDefault a b c))
    | _, _, _ => badRequest "C20"
  | _ => badRequest "C20"

end Gwcs.Drv.C20
