import GwcsModel.Solver
open Lean
namespace Gwcs.Drv.C05
open Gwcs Gwcs.Sol

/-- Boolean form of the loop invariant -/
def invB (tol2 : Rat) (r : Row) : Bool :=
  r.inInd || r.converged tol2 || r.isDiv tol2 || !r.pixFinite

/-- {"tol2": f, "kGeMax": b, "detect": b, "quiet": b,
     "rows": [[dn, dnprev, pixFinite, worldFinite, inInd, fallbackOK] ..]}   (dn, dnprev as IEEE bits; non-finite -> flag) -/
def handle (j : Json) : Json :=
  match (do
    let tol2 ← (← jFloat (← jField j "tol2")) |> floatToRat
    let k ← jBool (← jField j "kGeMax")
    let d ← jBool (← jField j "detect")
    let q ← jBool (← jField j "quiet")
    let rows ← jList (fun r => do
      match ← jArr r with
      | [dn, dp, pf, wf, ii, fb] =>
        let dnv := ((jFloat dn).bind floatToRat).getD 0
        let dpv := ((jFloat dp).bind floatToRat).getD 0
        pure ((⟨dnv, dpv, (← jBool pf), (← jBool wf), (← jBool ii)⟩ : Row), (← jBool fb))
      | _ => none) (← jField j "rows")
    pure (tol2, k, d, q, rows)) with
  | none => badRequest "C05"
  | some (tol2, k, d, q, rows) =>
    let rs := rows.map (·.1)
    let fb : Nat → Bool := fun i => ((rows[i]?).map (·.2)).getD false
    let o := classify tol2 k d q fb rs
    okJson (Json.mkObj [
      ("divergent", listToJson natToJson o.divergent), ("slow", listToJson natToJson o.slow), ("raises", Json.bool o.raises),
      ("invariant", Json.bool (rs.all (invB tol2))),
      ("exit", Json.bool (k || rs.all (fun r => !r.inInd)))])

end Gwcs.Drv.C05
