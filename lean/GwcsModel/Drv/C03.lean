import GwcsModel.BBox
open Lean
namespace Gwcs.Drv.C03
open Gwcs Gwcs.BBox

def parsePairs (j : Json) : Option (List (Float × Float)) :=
  jList (fun iv => do
    match ← jArr iv with
    | [a, b] => pure ((← jFloat a), (← jFloat b))
    | _ => none) j

def fJson (f : Float) : Json := if f.isNaN then Json.str "nan" else floatToJson f

/-- {"box": [[lo,hi]..]|null, "ab": [[a,b]..], "fill": f, "withbb": bool, "pts": [[..]..]} -/
def handle (j : Json) : Json :=
  match (do
    let ab ← parsePairs (← jField j "ab")
    let box : Option (List (Float × Float)) ←
      match jFieldD j "box" Json.null with
      | .null => pure none
      | b => (parsePairs b).map some
    let fill ← jFloat (← jField j "fill")
    let wbb ← jBool (← jField j "withbb")
    let pts ← jList (jList jFloat) (← jField j "pts")
    pure (ab, box, fill, wbb, pts)) with
  | none => badRequest "C03"
  | some (ab, box, fill, wbb, pts) =>
    let out := evalBatch (affine ab) ab.length box wbb fill pts
    okJson (Json.mkObj [
      ("vals", listToJson (listToJson fJson) out),
      ("outside", listToJson Json.bool (pts.map (fun p => match box with | some b => outside b p | none => false)))])

end Gwcs.Drv.C03
