import GwcsModel.BBox
open Lean
namespace Gwcs.Drv.C03
open Gwcs Gwcs.BBox

def parsePairs (j : Json) : Option (List (Float × Float)) :=
  jList (fun iv => do
    match ← jArr iv with
    | [a, b] => pure ((← jFloat a), (← jFloat b))
    | _ => none) j

def fJson (f : Float) : Json := if f.isNaN then Json.str "nan" else floatToJson f

/-- {"box": [[lo,hi]..]|null, "ab": [[a,b]..], "fill": f, "withbb": bool, "pts": [[..]..]} -/
def handle (j : Json) : Json :=
  match (do
    let ab ← parsePairs (← jField j "ab")
    -- either the per-axis box, or a stored box with its order flag {"obox": {"order": "C"|"F", "stored": [[lo,hi]..]}}
    let box : Option (List (Float × Float)) ←
      match jFieldD j "obox" Json.null with
      | .null =>
        match jFieldD j "box" Json.null with
        | .null => pure none
        | b => (parsePairs b).map some
      | ob => do
        let stored ← parsePairs (← jField ob "stored")
        let order ← match jStr (← jField ob "order") with
          | some "C" => some BoxOrder.C
          | some "F" => some BoxOrder.F
          | _ => none
        pure (some (setOBox (.obj ⟨order, stored⟩)).toF)
    let fill ← jFloat (← jField j "fill")
    let wbb ← jBool (← jField j "withbb")
    let pts ← jList (jList jFloat) (← jField j "pts")
    pure (ab, box, fill, wbb, pts)) with
  | none => badRequest "C03"
  | some (ab, box, fill, wbb, pts) =>
    let out := evalBatch (affine ab) ab.length box wbb fill pts
    okJson (Json.mkObj [
      ("vals", listToJson (listToJson fJson) out),
      ("box_f", match box with | some b => listToJson (fun (iv : Float × Float) => Json.arr #[fJson iv.1, fJson iv.2]) b | none => Json.null),
      ("outside", listToJson Json.bool (pts.map (fun p => match box with | some b => outside b p | none => false)))])

end Gwcs.Drv.C03
