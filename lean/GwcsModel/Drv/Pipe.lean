import GwcsModel.Pipeline
open Lean
namespace Gwcs.Drv.Pipe
open Gwcs Gwcs.Pipe

def parseFrame (j : Json) : Option FrameRef := do
  let name ← jStr (← jField j "name")
  let obj := (jField j "obj").bind jNat
  pure ⟨name, obj⟩

def parseTr (j : Json) : Option (Option TExpr) :=
  match j with
  | .null => some none
  | _ => (TExpr.ofJson j).map some

def parseBox (j : Json) : Option Box :=
  jList (fun iv => do
    match ← jArr iv with
    | [a, b] => pure ((← jRat a), (← jRat b))
    | _ => none) j

def parseState (j : Json) : Option WState := do
  let frames ← jList parseFrame (← jField j "frames")
  let trs ← jList parseTr (← jField j "trs")
  pure (initState frames trs)

def probe (n k : Nat) : List Rat :=
  (if k = 0 then [3, -5, 7, 2, 9, -4] else [1/2, 4, -1, 8, -3, 6]).take n

def ptsJson (l : List Rat) : Json := listToJson ratToJson l

/-- evaluate an (optional) transform object on the two probes of its arity -/
def probeJson (r : Except Err (Option TObj)) : Json :=
  match r with
  | .error e => errJson e
  | .ok none => Json.mkObj [("none", Json.bool true)]
  | .ok (some t) =>
    let n := t.e.nin
    Json.mkObj [("nin", natToJson n), ("v", Json.arr #[
      exceptToJson ptsJson (t.e.eval (probe n 0)), exceptToJson ptsJson (t.e.eval (probe n 1))])]

def boxJson (b : Except Err (Option Box)) : Json :=
  match b with
  | .error e => errJson e
  | .ok none => Json.null
  | .ok (some b) => listToJson (fun (iv : Rat × Rat) => Json.arr #[ratToJson iv.1, ratToJson iv.2]) b

def observe (s : WState) : Json :=
  let nm := names s.pipe
  let pairs := nm.flatMap (fun a => nm.map (fun b =>
    Json.arr #[Json.str a, Json.str b, probeJson (getTransform tobjOps s.pipe a b)]))
  let attrs := s.attrs.map (fun kv => Json.arr #[Json.str kv.1, match kv.2 with | some n => natToJson n | none => Json.null])
  Json.mkObj [
    ("names", listToJson Json.str nm),
    ("attrs", Json.arr attrs.toArray),
    ("bbox", boxJson (getBBox s.pipe)),
    ("pairs", Json.arr pairs.toArray),
    ("fwd", probeJson (forwardTransform tobjOps s.pipe))]

def parseOp (j : Json) : Option Op := do
  match ← jStr (← jField j "k") with
  | "set" => pure (.setTransform (← jStr (← jField j "from")) (← jStr (← jField j "to")) (← parseTr (jFieldD j "tr" Json.null)))
  | "instr" => pure (.insertTransform (← jStr (← jField j "frame")) (← parseTr (jFieldD j "tr" Json.null)) (← jBool (← jField j "after")))
  | "insfr" => pure (.insertFrame (← parseFrame (← jField j "in")) (← parseTr (jFieldD j "tr" Json.null)) (← parseFrame (← jField j "out")))
  | "bbox" =>
    match jFieldD j "v" Json.null with
    | .null => pure (.setBBox none)
    | v => pure (.setBBox (some (← parseBox v)))
  | _ => none

/-- C07: run a history of edits; after every op report the result and the whole observable state. -/
def handleHistory (j : Json) : Json :=
  match (do
    let s ← parseState j
    let ops ← jList parseOp (← jField j "ops")
    pure (s, ops)) with
  | none => badRequest "history"
  | some (s0, ops) =>
    let (_, outs) := ops.foldl (fun (acc : WState × List Json) op =>
      let (s, outs) := acc
      match step s op with
      | .ok s' => (s', outs ++ [Json.mkObj [("res", Json.str "ok"), ("obs", observe s')]])
      | .error e => (s, outs ++ [Json.mkObj [("res", Json.str e.toString), ("obs", observe s)]])) (s0, [])
    okJson (Json.mkObj [("init", observe s0), ("steps", Json.arr outs.toArray)])

/-- C01: evaluate queries (explicit points) on one pipeline. -/
def handleEval (j : Json) : Json :=
  match (do
    let s ← parseState j
    let qs ← jArr (jFieldD j "queries" (Json.arr #[]))
    pure (s, qs)) with
  | none => badRequest "eval"
  | some (s, qs) =>
    let evalPts (t : Except Err (Option TObj)) (pts : List (List Rat)) : Json :=
      match t with
      | .error e => errJson e
      | .ok none => Json.mkObj [("none", Json.bool true)]
      | .ok (some t) => Json.mkObj [("v", listToJson (fun p => exceptToJson ptsJson (t.e.eval p)) pts)]
    let ans := qs.map (fun q =>
      let pts := ((jField q "pts").bind (jList (jList jRat))).getD []
      match jStr (jFieldD q "k" Json.null) with
      | some "get" =>
        match jStr (jFieldD q "from" Json.null), jStr (jFieldD q "to" Json.null) with
        | some a, some b => evalPts (getTransform tobjOps s.pipe a b) pts
        | _, _ => badRequest "get"
      | some "call" => evalPts (forwardTransform tobjOps s.pipe) pts
      | some "fix" =>
        match (jField q "fixed").bind (jList (fun kv => do
            match ← jArr kv with
            | [k, v] => pure ((← jNat k), (← jRat v))
            | _ => none)) with
        | none => badRequest "fix"
        | some fixed =>
          match s.pipe with
          | ⟨f0, some t0⟩ :: rest =>
            let p' : Pipeline TObj := ⟨f0, some ⟨TExpr.fixin t0.e fixed, none⟩⟩ :: rest
            Json.mkObj [("new", evalPts (forwardTransform tobjOps p') pts),
                        ("orig_names", listToJson Json.str (names s.pipe)),
                        ("new_names", listToJson Json.str (names p'))]
          | _ => errJson .typeErr
      | _ => badRequest "query")
    okJson (Json.mkObj [("names", listToJson Json.str (names s.pipe)), ("answers", Json.arr ans.toArray)])

def handle (j : Json) : Json :=
  match jStr (jFieldD j "op" Json.null) with
  | some "history" => handleHistory j
  | some "eval" => handleEval j
  | _ => badRequest "pipe op"

end Gwcs.Drv.Pipe
