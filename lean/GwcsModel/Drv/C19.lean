import GwcsModel.Generated.Analytic
import GwcsModel.Analytic
import GwcsModel.Basic
open Lean
namespace Gwcs.Drv.C19
open Gwcs Gwcs.Gen Gwcs.Ana

def fJson (f : Float) : Json := if f.isNaN then Json.str "nan" else floatToJson f
def outs (l : List Float) : Json := okJson (listToJson fJson l)

def t3 (l : List Float) : Option (Float × Float × Float) :=
  match l with | [a, b, c] => some (a, b, c) | _ => none

/-- {"fn": name, "args": [doubles], "B","C","D","E": parameter triples, "wrap360": bool} -/
def handle (j : Json) : Json :=
  match (do
    let fn ← jStr (← jField j "fn")
    let args ← jList jFloat (← jField j "args")
    pure (fn, args)) with
  | none => badRequest "C19"
  | some (fn, args) =>
    let trip (k : String) : Option (Float × Float × Float) := ((jField j k).bind (jList jFloat)).bind t3
    match fn, args with
    | "toDirectionCosines", [x, y, z] => let (a, b, c, d) := toDirectionCosines x y z; outs [a, b, c, d]
    | "fromDirectionCosines", [a, b, c, d] => let (x, y, z) := fromDirectionCosines a b c d; outs [x, y, z]
    | "sphericalToCartesian", [lon, lat] => let (x, y, z) := sphericalToCartesian lon lat; outs [x, y, z]
    | "cartesianToSpherical", [x, y, z] =>
      let w := ((jField j "wrap360").bind jBool).getD true
      let (lon, lat) := cartesianToSpherical w x y z; outs [lon, lat]
    | "wavelengthFromGrating", [a, b, d, m] => outs [wavelengthFromGrating a b d m]
    | "anglesFromGrating3D", [lam, a, b, d, m] => let (p, q, r) := anglesFromGrating3D lam a b d m; outs [p, q, r]
    | "snell3D", [n, a, b, g] => let (p, q, r) := snell3D n a b g; outs [p, q, r]
    | "sellmeierGlass", [lam] =>
      match trip "B", trip "C" with
      | some B, some C => outs [sellmeierGlass lam B C]
      | _, _ => badRequest "C19 glass params"
    | "sellmeierZemax", [lam, t, tr, pr, p] =>
      match trip "B", trip "C", trip "D", trip "E" with
      | some B, some C, some D, some E => outs [sellmeierZemax lam t tr pr p B C D E]
      | _, _, _, _ => badRequest "C19 zemax params"
    | _, _ => badRequest "C19 fn/arity"

end Gwcs.Drv.C19
