import GwcsModel.Tab
open Lean
namespace Gwcs.Drv.C11
open Gwcs Gwcs.Tab

/-- {"sets":[[world axes fed by pixel axis j]..], "axes":[{"lo","hi","s"}..], "used":[..], "insert":[..]} -/
def handle (j : Json) : Json :=
  match (do
      let sets ← jList (jList jNat) (jFieldD j "sets" (Json.arr #[]))
      let axes ← jList (fun a => do pure ((← jRat (← jField a "lo")), (← jRat (← jField a "hi")), (← jRat (← jField a "s"))))
        (jFieldD j "axes" (Json.arr #[]))
      let used ← jList jNat (jFieldD j "used" (Json.arr #[]))
      let ins ← jList jNat (jFieldD j "insert" (Json.arr #[]))
      pure (sets, axes, used, ins)) with
  | none => badRequest "C11"
  | some (sets, axes, used, ins) =>
    let gs := (separableGroups sets).map (fun g => (g.eraseDups).mergeSort (· ≤ ·))
    okJson (Json.mkObj [
      ("groups", listToJson (listToJson natToJson) gs),
      ("axes", listToJson (fun (a : Rat × Rat × Rat) =>
        let (lo, hi, s) := a
        let n := npix lo hi s
        Json.mkObj [("npix", natToJson n), ("cdelt", ratToJson (cdelt lo hi n)), ("crpix", ratToJson (crpix lo)),
                    ("naxis", intToJson (naxis lo hi)), ("first", ratToJson (node lo hi n 0)), ("last", ratToJson (node lo hi n (n - 1))),
                    ("psi_last", ratToJson (psi lo hi n (node lo hi n (n - 1))))]) axes),
      ("naxis_order", listToJson natToJson (insertAll ins used))])

end Gwcs.Drv.C11
