import GwcsModel.Tab
import GwcsModel.Remap
open Lean
namespace Gwcs.Drv.C11
open Gwcs Gwcs.Tab

/-- {"remap": {"kind":"PC"|"CD","nlon","nlat","iax1","iax2","n","b":[[b00,b01],[b10,b11]]}}: card positions and the two celestial rows a
reader assembles -/
def handleRemap (r : Json) : Json :=
  match (do
      let kind ← jStr (← jField r "kind")
      let k ← (if kind == "PC" then some Remap.Kind.PC else if kind == "CD" then some Remap.Kind.CD else none)
      let a : Remap.Ax := ⟨← jNat (← jField r "nlon"), ← jNat (← jField r "nlat"), ← jNat (← jField r "iax1"), ← jNat (← jField r "iax2")⟩
      let n ← jNat (← jField r "n")
      let b ← jList (jList jRat) (← jField r "b")
      pure (k, a, n, b)) with
  | none => badRequest "C11 remap"
  | some (k, a, n, b) =>
    let bf : Nat → Nat → Rat := fun i j => ((b.getD i []).getD j 0)
    let cs := Remap.cards k a bf
    okJson (Json.mkObj [
      ("cards", listToJson (fun (c : Remap.Card) => Json.arr #[natToJson c.1, natToJson c.2.1, ratToJson c.2.2]) cs),
      ("lon_row", listToJson ratToJson ((List.range n).map (fun j => Remap.readM k cs a.nlon (j + 1)))),
      ("lat_row", listToJson ratToJson ((List.range n).map (fun j => Remap.readM k cs a.nlat (j + 1))))])

/-- {"sets":[[world axes fed by pixel axis j]..], "axes":[{"lo","hi","s"}..], "used":[..], "insert":[..]} -/
def handle (j : Json) : Json :=
  match jField j "remap" with
  | some r => handleRemap r
  | none =>
  match (do
      let sets ← jList (jList jNat) (jFieldD j "sets" (Json.arr #[]))
      let axes ← jList (fun a => do pure ((← jRat (← jField a "lo")), (← jRat (← jField a "hi")), (← jRat (← jField a "s"))))
        (jFieldD j "axes" (Json.arr #[]))
      let frames ← jList (fun f => do pure ({ axes := ← jList jNat (← jField f "axes"), cel := ← jBool (← jField f "cel") } : FrameI))
        (jFieldD j "frames" (Json.arr #[]))
      let used ← jList jNat (jFieldD j "used" (Json.arr #[]))
      let ins ← jList jNat (jFieldD j "insert" (Json.arr #[]))
      pure (sets, axes, used, ins, frames)) with
  | none => badRequest "C11"
  | some (sets, axes, used, ins, frames) =>
    let gs := (separableGroups sets).map (fun g => (g.eraseDups).mergeSort (· ≤ ·))
    okJson (Json.mkObj [
      ("groups", listToJson (listToJson natToJson) gs),
      ("celestial", listToJson (listToJson natToJson) (gs.filter (celestialGroup frames))),
      ("axes", listToJson (fun (a : Rat × Rat × Rat) =>
        let (lo, hi, s) := a
        let n := npix lo hi s
        Json.mkObj [("npix", natToJson n), ("cdelt", ratToJson (cdelt lo hi n)), ("crpix", ratToJson (crpix lo)),
                    ("naxis", intToJson (naxis lo hi)), ("first", ratToJson (node lo hi n 0)), ("last", ratToJson (node lo hi n (n - 1))),
                    ("psi_last", ratToJson (psi lo hi n (node lo hi n (n - 1))))]) axes),
      ("naxis_order", listToJson natToJson (insertAll ins used))])

end Gwcs.Drv.C11
