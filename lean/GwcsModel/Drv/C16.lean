import GwcsModel.Units
open Lean
namespace Gwcs.Drv.C16
open Gwcs Gwcs.Units

def jU (j : Json) : Option U := do
  match ← jArr j with
  | [d, s] => pure ⟨← jNat d, ← jRat s⟩
  | _ => none

def uToJson (u : U) : Json := Json.arr #[natToJson u.dim, ratToJson u.scale]

def jArg (j : Json) : Option Arg :=
  match jArr j with
  | some [_, v, u] => do pure (Arg.qty (← jRat v) (← jU u))
  | _ => (jRat j).map Arg.bare

def argToJson : Arg → Json
  | .bare v => ratToJson v
  | .qty v u => Json.arr #[Json.str "q", ratToJson v, uToJson u]

def unArg : Arg → Option Rat
  | .bare v => some v
  | .qty _ _ => none

/-- {"usesQ":b,"axes":[{"a","b","tin","tout","pix","world"}..],"op":..,"args":[..]} -/
def handle (j : Json) : Json :=
  match (do
      let usesQ ← jBool (← jField j "usesQ")
      let axes ← jList (fun a => do
        pure ((← jRat (← jField a "a")), (← jRat (← jField a "b")), (← jU (← jField a "tin")), (← jU (← jField a "tout")),
              (← jU (← jField a "pix")), (← jU (← jField a "world")))) (← jField j "axes")
      let op ← jStr (← jField j "op")
      let args ← jList jArg (← jField j "args")
      pure (usesQ, axes, op, args)) with
  | none => badRequest "C16"
  | some (usesQ, axes, op, args) =>
    let ab := axes.map fun (a, b, _) => (a, b)
    let tin := axes.map fun (_, _, t, _) => t
    let tout := axes.map fun (_, _, _, t, _) => t
    let pixU := axes.map fun (_, _, _, _, p, _) => p
    let worldU := axes.map fun (_, _, _, _, _, w) => w
    -- optional user-supplied unit-free inverse next to a unit-carrying forward transform: {"bwd_plain": [[a', b']..]} (frame units)
    let bwdPlain : Option (List (Rat × Rat)) := (jList (fun t => do
        match ← jArr t with
        | [a, b] => pure ((← jRat a), (← jRat b))
        | _ => none) (jFieldD j "bwd_plain" Json.null))
    -- or the other way round: a user-supplied unit-carrying inverse (frame units -> pixel units) next to a unit-free forward transform
    let bwdUnits : Option (List (Rat × Rat)) := (jList (fun t => do
        match ← jArr t with
        | [a, b] => pure ((← jRat a), (← jRat b))
        | _ => none) (jFieldD j "bwd_units" Json.null))
    let bwd : Tr := match bwdPlain, bwdUnits with
      | some ab', _ => ⟨false, affineInv ab', worldU, pixU⟩
      | none, some ab' => ⟨true, affineInv ab', worldU, pixU⟩
      | none, none => ⟨usesQ, affineInv ab, tout, tin⟩
    let w : W := { fwd := ⟨usesQ, affine ab, tin, tout⟩, bwd := bwd, pixU := pixU, worldU := worldU }
    let vals := args.filterMap unArg
    let outVals (r : Except Err (List Rat)) : Json :=
      match r with | .ok vs => okJson (listToJson ratToJson vs) | .error e => errJson e
    let outArgs (r : Except Err (List Arg)) : Json :=
      match r with | .ok vs => okJson (listToJson argToJson vs) | .error e => errJson e
    match op with
    | "p2wv" => outVals (w.pixelToWorldValues vals)
    | "w2pv" => outVals (w.worldToPixelValues vals)
    | "invert" => outArgs (w.invert args)
    | "p2w" => outArgs (w.pixelToWorld args)
    | "call_units" => outArgs (w.callWithUnits args)
    | "w2ai_scale" =>
      -- world_to_array_index through a one-axis scale-only backward transform Multiply(1/a * pix/tout)
      match axes, args with
      | [(a, _, _, to, px, _)], [arg] =>
        (match (if (jBool (jFieldD j "raw" (Json.bool false))).getD false then arrayIndexScaleOnlyRaw (1 / a) to px arg
                else arrayIndexScaleOnly (1 / a) to px px arg) with
         | .ok i => okJson (intToJson i)
         | .error e => errJson e)
      | _, _ => badRequest "C16 w2ai_scale"
    | _ => badRequest "C16"

end Gwcs.Drv.C16
