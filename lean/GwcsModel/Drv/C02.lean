import GwcsModel.TExpr
open Lean
namespace Gwcs.Drv.C02
open Gwcs

def ptsJson (l : List Rat) : Json := listToJson ratToJson l

/-- {"trs":[texpr..],"pts":[[..]],"world":[[..]]} → forward, round trips, backward, backward.inverse -/
def handle (j : Json) : Json :=
  match (do
    let trs ← jList TExpr.ofJson (← jField j "trs")
    let pts ← jList (jList jRat) (jFieldD j "pts" (Json.arr #[]))
    let world ← jList (jList jRat) (jFieldD j "world" (Json.arr #[]))
    pure (trs, pts, world)) with
  | none => badRequest "C02"
  | some (trs, pts, world) =>
    match trs with
    | [] => badRequest "C02 empty"
    | t0 :: rest =>
      match rest.foldlM (fun a b => TExpr.mkComp a b) t0 with
      | .error e => errJson e
      | .ok f =>
        let inv := f.inverse
        let ev (t : Except Err TExpr) (p : List Rat) : Except Err (List Rat) := t.bind (fun t => t.eval p)
        let fwd := pts.map (fun p => exceptToJson ptsJson (f.eval p))
        let rt := pts.map (fun p => exceptToJson ptsJson ((f.eval p).bind (ev inv)))
        let back := world.map (fun w => exceptToJson ptsJson (ev inv w))
        let rtw := world.map (fun w => exceptToJson ptsJson ((ev inv w).bind f.eval))
        let invinv := pts.map (fun p => exceptToJson ptsJson (ev (inv.bind TExpr.inverse) p))
        okJson (Json.mkObj [("fwd", Json.arr fwd.toArray), ("roundtrip_pix", Json.arr rt.toArray),
          ("back", Json.arr back.toArray), ("roundtrip_world", Json.arr rtw.toArray), ("inv_inv", Json.arr invinv.toArray),
          ("has_inverse", Json.bool (match inv with | .ok _ => true | .error _ => false))])

end Gwcs.Drv.C02
