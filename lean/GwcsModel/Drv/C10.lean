import GwcsModel.Sip
open Lean
namespace Gwcs.Drv.C10
open Gwcs Gwcs.Sip

def jCoefs (j : Json) : Option (List (Nat × Nat × Rat)) :=
  jList (fun t => do
    match ← jArr t with
    | [i, k, c] => pure ((← jNat i), (← jNat k), (← jRat c))
    | _ => none) j

def mkPoly (deg : Nat) (cs : List (Nat × Nat × Rat)) : Poly :=
  { deg := deg, c := fun i j => match cs.find? (fun t => t.1 == i && t.2.1 == j) with | some t => t.2.2 | none => 0 }

def lookup {α} (tbl : List (Nat × α)) (d : Nat) : Option α := (tbl.find? (fun t => t.1 == d)).map (·.2)

def exitJson : FitExit → Json
  | .valueErr => errJson .valueErr
  | .linAlgErr => Json.mkObj [("err", Json.str "linAlgErr")]
  | .noFit => Json.mkObj [("err", Json.str "noFit")]
  | .ok r => okJson (Json.mkObj [
      ("degree", natToJson r.degree),
      ("coeff_degree", match r.coeffDegree with | some c => natToJson c | none => Json.null),
      ("reported", match r.reported with | some e => ratToJson e | none => Json.null),
      ("warn_unmet", Json.bool r.warnUnmet), ("warn_cond", Json.bool r.warnCond), ("warn_sampling", Json.bool r.warnSampling)])

def handle (j : Json) : Json :=
  match jStr (jFieldD j "op" Json.null) with
  | some "fit2d" =>
    match (do
        let spec ← match jFieldD j "spec" Json.null with
          | .null => some DegreeSpec.all
          | .arr a => (a.toList.mapM jInt).map DegreeSpec.list
          | x => (jInt x).map DegreeSpec.single
        let maxErr ← jRat (← jField j "max_err")
        let fits ← jList (fun t => do
          match ← jArr t with
          | [d, .null] => pure ((← jNat d), (none : FitOutcome))
          | [d, e, c] => pure ((← jNat d), some ((← jRat e), (← jBool c)))
          | _ => none) (← jField j "fits")
        let dbl ← jList (fun t => do
          match ← jArr t with
          | [d, e] => pure ((← jNat d), (← jRat e))
          | _ => none) (← jField j "dbl")
        pure (spec, maxErr, fits, dbl)) with
    | none => badRequest "C10"
    | some (spec, maxErr, fits, dbl) =>
      exitJson (fit2D spec maxErr (fun d => (lookup fits d).getD none) (fun d => (lookup dbl d).getD 0))
  | some "sip_eval" =>
    match (do
        let deg ← jNat (← jField j "deg")
        let cd ← jList jRat (← jField j "cd")
        let a ← jCoefs (← jField j "a")
        let b ← jCoefs (← jField j "b")
        let pts ← jList (jList jRat) (← jField j "points")
        pure (deg, cd, a, b, pts)) with
    | some (deg, [c11, c12, c21, c22], a, b, pts) =>
      let s : Sip := { cd11 := c11, cd12 := c12, cd21 := c21, cd22 := c22, a := mkPoly deg a, b := mkPoly deg b }
      okJson (listToJson (fun (p : List Rat) => match p with
        | [u, v] => let r := s.eval u v; Json.arr #[ratToJson r.1, ratToJson r.2]
        | _ => Json.null) pts)
    | _ => badRequest "C10"
  | some "reform" =>
    match (do
        let deg ← jNat (← jField j "deg")
        let fx ← jCoefs (← jField j "fx")
        let fy ← jCoefs (← jField j "fy")
        let keep ← jBool (jFieldD j "keeplinear" (Json.bool false))
        pure (deg, fx, fy, keep)) with
    | some (deg, fx, fy, keep) =>
      let s := reform (mkPoly deg fx) (mkPoly deg fy)
      let keys := stored deg keep
      okJson (Json.mkObj [
        ("cd", listToJson ratToJson [s.cd11, s.cd12, s.cd21, s.cd22]),
        ("a", listToJson (fun (t : Nat × Nat) => Json.arr #[natToJson t.1, natToJson t.2, ratToJson (s.a.c t.1 t.2)]) keys),
        ("b", listToJson (fun (t : Nat × Nat) => Json.arr #[natToJson t.1, natToJson t.2, ratToJson (s.b.c t.1 t.2)]) keys)])
    | none => badRequest "C10"
  | _ => badRequest "C10"

end Gwcs.Drv.C10
