import GwcsModel.Asdf
open Lean
namespace Gwcs.Drv.C09
open Gwcs Gwcs.Asdf

def jKind (j : Json) : Option Kind :=
  match jStr j with
  | some "generic" => some .generic | some "frame2d" => some .frame2d | some "celestial" => some .celestial
  | some "spectral" => some .spectral | some "temporal" => some .temporal | some "stokes" => some .stokes
  | _ => none

def kindStr : Kind → String
  | .generic => "generic" | .frame2d => "frame2d" | .celestial => "celestial"
  | .spectral => "spectral" | .temporal => "temporal" | .stokes => "stokes"

def jOpt {α} (f : Json → Option α) (j : Json) : Option (Option α) :=
  match j with | .null => some none | _ => (f j).map some

def jFrame (j : Json) : Option Frame := do
  pure { kind := ← jKind (← jField j "kind"), name := ← jStr (← jField j "name"), naxes := ← jNat (← jField j "naxes"),
         axesType := ← jList jStr (← jField j "axes_type"), axesOrder := ← jList jNat (← jField j "axes_order"),
         axesNames := ← jList jStr (← jField j "axes_names"), refFrame := ← jOpt jNat (jFieldD j "ref" Json.null),
         unit := ← jList jStr (← jField j "unit"), phys := ← jList jStr (← jField j "phys"),
         refPos := ← jOpt jStr (jFieldD j "ref_pos" Json.null) }

def frameToJson (f : Frame) : Json := Json.mkObj [
  ("kind", Json.str (kindStr f.kind)), ("name", Json.str f.name), ("naxes", natToJson f.naxes),
  ("axes_type", listToJson Json.str f.axesType), ("axes_order", listToJson natToJson f.axesOrder),
  ("axes_names", listToJson Json.str f.axesNames), ("ref", match f.refFrame with | some r => natToJson r | none => Json.null),
  ("unit", listToJson Json.str f.unit), ("phys", listToJson Json.str f.phys),
  ("ref_pos", match f.refPos with | some p => Json.str p | none => Json.null)]

def valToJson : Val → Json
  | .str s => Json.arr #[Json.str "str", Json.str s]
  | .nat n => Json.arr #[Json.str "nat", natToJson n]
  | .strs l => Json.arr #[Json.str "strs", listToJson Json.str l]
  | .nats l => Json.arr #[Json.str "nats", listToJson natToJson l]
  | .atom i => Json.arr #[Json.str "atom", natToJson i]

def jVal (j : Json) : Option Val := do
  match ← jArr j with
  | [t, v] =>
    match ← jStr t with
    | "str" => pure (.str (← jStr v))
    | "nat" => pure (.nat (← jNat v))
    | "strs" => pure (.strs (← jList jStr v))
    | "nats" => pure (.nats (← jList jNat v))
    | "atom" => pure (.atom (← jNat v))
    | _ => none
  | _ => none

def nodeToJson (n : Node) : Json := listToJson (fun (kv : String × Val) => Json.arr #[Json.str kv.1, valToJson kv.2]) n

def jNode (j : Json) : Option Node :=
  jList (fun kv => do
    match ← jArr kv with
    | [k, v] => pure ((← jStr k), (← jVal v))
    | _ => none) j

def jDefaults (j : Json) : Option Defaults := do
  pure { naxes := ← jNat (← jField j "naxes"), axesType := ← jList jStr (← jField j "axes_type"),
         axesOrder := ← jList jNat (← jField j "axes_order"), axesNames := ← jList jStr (← jField j "axes_names"),
         unit := ← jList jStr (← jField j "unit"), phys := ← jList jStr (← jField j "phys") }

/-- ops: to_node {frame}; from_node {kind, node, defaults}; roundtrip {frame, defaults};
    sel {pairs:[[label, id]..]}; bind {params, args, values:{k:v}} -/
def handle (j : Json) : Json :=
  match jStr (jFieldD j "op" Json.null) with
  | some "to_node" =>
    match jFrame (jFieldD j "frame" Json.null) with
    | some f => okJson (nodeToJson (toNode f))
    | none => badRequest "C09"
  | some "from_node" =>
    match jKind (jFieldD j "kind" Json.null), jNode (jFieldD j "node" Json.null), jDefaults (jFieldD j "defaults" Json.null) with
    | some k, some n, some d =>
      match fromNode k d n with
      | .ok f => okJson (frameToJson f)
      | .error e => errJson e
    | _, _, _ => badRequest "C09"
  | some "sel" =>
    match jList (fun p => do
        match ← jArr p with
        | [l, t] => pure ((← jInt l), (← jNat t))
        | _ => none) (jFieldD j "pairs" Json.null) with
    | some pairs =>
      let n := selToNode pairs
      okJson (Json.mkObj [("labels", listToJson intToJson n.1), ("transforms", listToJson natToJson n.2),
        ("back", listToJson (fun (p : Int × Nat) => Json.arr #[intToJson p.1, natToJson p.2]) (selFromNode n))])
    | none => badRequest "C09"
  | some "bind" =>
    match jList jStr (jFieldD j "params" Json.null), jList jStr (jFieldD j "args" Json.null) with
    | some ps, some as =>
      okJson (listToJson (fun (p : String × String) => Json.arr #[Json.str p.1, Json.str p.2]) (bindPositional ps as id))
    | _, _ => badRequest "C09"
  | _ => badRequest "C09"

end Gwcs.Drv.C09
