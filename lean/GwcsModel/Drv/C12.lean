import GwcsModel.Frames
open Lean
namespace Gwcs.Drv.C12
open Gwcs Gwcs.Frames

/-- {"frames":[{"axes_order":[..],"keys":[..],"comps":[[key,pos]..]}..]} → which (frame, local axis) every
    world axis comes from, which world axes every object receives, the renamed keys and the components -/
def handle (j : Json) : Json :=
  match jList (fun f => do
      let ao ← jList jNat (← jField f "axes_order")
      let keys ← jList jStr (← jField f "keys")
      let comps ← jList (fun c => do
        match ← jArr c with
        | [k, p] => pure ((← jStr k), (← jNat p))
        | _ => none) (← jField f "comps")
      pure (ao, keys, comps)) (jFieldD j "frames" Json.null) with
  | none => badRequest "C12"
  | some fs =>
    let frames : List (SubFrame String) := fs.zipIdx.map (fun ((ao, keys, comps), fi) =>
      ⟨ao, (List.range ao.length).map (fun k => "F" ++ toString fi ++ "A" ++ toString k), keys, comps⟩)
    let n := naxesOf frames
    match compositeMeta frames "?" with
    | .error e => errJson e
    | .ok meta' =>
      let world : List Nat := List.range n
      let objs := coordinates frames world
      let c2q := coordinateToQuantity frames objs
      let renamed := renameKeys (frames.map (·.keys))
      let comps := (renamed.map (components frames)).getD []
      okJson (Json.mkObj [
        ("meta", listToJson Json.str meta'),
        ("objects", listToJson (listToJson (fun (o : Option Nat) => match o with | some i => natToJson i | none => Json.null)) objs),
        ("c2q", listToJson (fun (o : Option Nat) => match o with | some i => natToJson i | none => Json.null) c2q),
        ("renamed", match renamed with | some r => listToJson (listToJson Json.str) r | none => Json.null),
        ("components", listToJson (fun (c : Option (String × Nat)) => match c with
          | some (k, p) => Json.arr #[Json.str k, natToJson p] | none => Json.null) comps)])

end Gwcs.Drv.C12
