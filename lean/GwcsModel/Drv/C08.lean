import GwcsModel.Cache
open Lean
namespace Gwcs.Drv.C08
open Gwcs Gwcs.Cache

/-- events → after each event `[epoch, memoEpoch | null]`; pipelines are identified by their epoch -/
def handle (j : Json) : Json :=
  match jArr (jFieldD j "events" Json.null) with
  | none => badRequest "C08 events"
  | some evs =>
    let parse (e : Json) : Option (Bool × Bool × Bool) := do   -- (isEdit, ok, inverting)
      match ← jStr (← jField e "k") with
      | "edit" => pure (true, (← jBool (← jField e "ok")), false)
      | "query" => pure (false, false, (← jBool (← jField e "inverting")))
      | _ => none
    match evs.mapM parse with
    | none => badRequest "C08 event"
    | some es =>
      let (_, outs) := es.foldl (fun (acc : CState Nat × List Json) (e : Bool × Bool × Bool) =>
        let (s, outs) := acc
        let ev : Event Nat Unit :=
          if e.1 then (if e.2.1 then .edit (some (s.epoch + 1)) else .edit none) else .query () e.2.2
        let s' := (step (fun (_ _ : Nat) (_ : Unit) => ()) s ev).1
        (s', outs ++ [Json.arr #[natToJson s'.epoch, match s'.memoEpoch with | some n => natToJson n | none => Json.null]]))
        (fresh 0, [])
      okJson (Json.arr outs.toArray)

end Gwcs.Drv.C08
