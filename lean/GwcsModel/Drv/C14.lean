import GwcsModel.Polygon
open Lean
namespace Gwcs.Drv.C14
open Gwcs Gwcs.Poly

structure PolyReq where
  rounded : List Pt          -- vertices rounded as the implementation does (doubles)
  roundedQ : List Pt         -- vertices rounded exactly
  log : List (Int × Nat × Int)   -- (row y, edge index, int(ceil(.))) as recorded on the implementation

def parseVerts (j : Json) : Option (List (Float × Float)) :=
  jList (fun v => do
    let l ← jArr v
    match l with
    | [a, b] => do pure (← jFloat a, ← jFloat b)
    | _ => none) j

def parsePoly (j : Json) : Option PolyReq := do
  let vs ← parseVerts (← jField j "verts")
  let rounded ← vs.mapM (fun (a, b) => do pure (Pt.mk (← floatToInt (roundF a)) (← floatToInt (roundF b))))
  let roundedQ ← vs.mapM (fun (a, b) => do pure (Pt.mk (roundQ (← floatToRat a)) (roundQ (← floatToRat b))))
  let log ← jList (fun t => do
      match (← jArr t) with
      | [y, i, c] => pure ((← jInt y), (← jNat i), (← jInt c))
      | _ => none) (jFieldD j "ceil" (Json.arr #[]))
  pure ⟨rounded, roundedQ, log⟩

/-- Slack read off the implementation's log: `c - ⌈xAt e y⌉` for the logged (row, edge). -/
def slackOfLog (es : List Edge) (log : List (Int × Nat × Int)) : Slack := fun e y =>
  match log.find? (fun (yy, i, _) => yy == y && es[i]? == some e) with
  | some (_, _, c) => c - (e.xAt y).ceil
  | none => 0

def logAdmissible (es : List Edge) (log : List (Int × Nat × Int)) : Bool :=
  log.all (fun (y, i, c) =>
    match es[i]? with
    | some e => decide (e.sy ≠ e.ey) && decide (admissibleAt (fun _ _ => c - (e.xAt y).ceil) e y)
    | none => false)

def maskToJson (m : List (List Bool)) : Json :=
  Json.arr (m.map (fun row => Json.str (String.ofList (row.map (fun b => if b then '1' else '0'))))).toArray

def ptsToJson (v : List Pt) : Json := listToJson (fun p => Json.arr #[intToJson p.x, intToJson p.y]) v

def handleScan (j : Json) : Json :=
  match (do
    let pr ← parsePoly j
    let ny ← jNat (← jField j "ny")
    let nx ← jNat (← jField j "nx")
    pure (pr, ny, nx)) with
  | none => badRequest "C14 scan"
  | some (pr, ny, nx) =>
    match prep pr.rounded with
    | .error e => errJson e
    | .ok p =>
      let g := geoOf p.verts
      let σ := slackOfLog g.es pr.log
      let adm := logAdmissible g.es pr.log
      let slackUsed := (pr.log.filter (fun (y, i, c) =>
        match g.es[i]? with | some e => c != (e.xAt y).ceil | none => false)).length
      let m := scanMaskLoop σ p ny nx
      let m2 := scanMask σ p ny nx
      okJson (Json.mkObj [
        ("mask", maskToJson m),
        ("closed_form_agrees", Json.bool (m == m2)),
        ("verts", ptsToJson p.verts),
        ("shift", Json.arr #[intToJson p.shiftx, intToJson p.shifty]),
        ("admissible", Json.bool adm),
        ("slack_used", natToJson slackUsed),
        ("round_exact_agrees", Json.bool (pr.rounded == pr.roundedQ))])

/-- draw labelled polygons in order; labels are positive integers, 0 = empty. -/
def handleDraw (j : Json) : Json :=
  match (do
    let ps ← jArr (← jField j "polys")
    let ny ← jNat (← jField j "ny")
    let nx ← jNat (← jField j "nx")
    let prs ← ps.mapM (fun pj => do pure ((← jNat (← jField pj "label")), (← parsePoly pj)))
    pure (prs, ny, nx)) with
  | none => badRequest "C14 draw"
  | some (prs, ny, nx) =>
    let step (acc : Except Err (List (List Nat) × Bool)) (lp : Nat × PolyReq) : Except Err (List (List Nat) × Bool) := do
      let (img, adm) ← acc
      let p ← prep lp.2.rounded
      let g := geoOf p.verts
      let σ := slackOfLog g.es lp.2.log
      let m := scanMaskLoop σ p ny nx
      let img' := (img.zip m).map (fun (ir, mr) => (ir.zip mr).map (fun (a, b) => if b then lp.1 else a))
      pure (img', adm && logAdmissible g.es lp.2.log)
    match prs.foldl step (.ok ((List.replicate ny (List.replicate nx 0)), true)) with
    | .error e => errJson e
    | .ok (img, adm) =>
      okJson (Json.mkObj [("img", listToJson (listToJson natToJson) img), ("admissible", Json.bool adm)])

def handle (j : Json) : Json :=
  match jStr (jFieldD j "op" Json.null) with
  | some "scan" => handleScan j
  | some "draw" => handleDraw j
  | _ => badRequest "C14 op"

end Gwcs.Drv.C14
