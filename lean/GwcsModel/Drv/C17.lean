import GwcsModel.Effects
open Lean
namespace Gwcs.Drv.C17
open Gwcs Gwcs.Eff

def parseMode (s : String) : Option Mode :=
  match s with
  | "ignore" => some .ignore | "warn" => some .warn | "raise" => some .raise
  | "call" => some .call | "print" => some .print | "log" => some .log | _ => none

def parseEv (j : Json) : Option Ev := do
  let s ← jStr j
  match s.splitOn ":" with
  | ["esEnter"] => pure .esEnter
  | ["esExit"] => pure .esExit
  | ["cwEnter"] => pure .cwEnter
  | ["cwExit"] => pure .cwExit
  | ["eval"] => pure .eval
  | ["raised"] => pure .raised
  | ["filt", n] => pure (.filt (← n.toNat?))
  | ["print", n] => pure (.setPrint (← n.toNat?))
  | ["seterr", i, o] => pure (.setErr (← parseMode i) (← parseMode o))
  | _ => none

def one (tr : List Ev) : Json :=
  let g0 := fresh ⟨.ignore, .warn, .warn, .warn⟩ [7, 8] 3
  let g := run tr g0
  Json.mkObj [("guarded", Json.bool (guarded tr 0 0)),
    ("restored", Json.bool (g.err == g0.err && g.filters == g0.filters && g.print == g0.print))]

def handle (j : Json) : Json :=
  match jList (jList parseEv) (jFieldD j "traces" Json.null) with
  | none => badRequest "C17 traces"
  | some trs => okJson (Json.arr (trs.map one).toArray)

end Gwcs.Drv.C17
