import GwcsModel.Batch
open Lean
namespace Gwcs.Drv.C06
open Gwcs Gwcs.Batch

/-- {"op":"layout","nout":k,"sols":[[v..]..]}: the per-element solutions (opaque tokens), in flat
    row-major order of the input batch → the `k` output columns as the array path assembles them.
    {"op":"broadcast","shapes":[[..]..]} → broadcast shape or null. -/
def handle (j : Json) : Json :=
  match jStr (jFieldD j "op" Json.null) with
  | some "layout" =>
    match (do
      let k ← jNat (← jField j "nout")
      let sols ← jList (jList jStr) (← jField j "sols")
      pure (k, sols)) with
    | none => badRequest "C06 layout"
    | some (k, sols) =>
      let n := sols.length
      let idxCol : List String := (List.range n).map toString
      let solve : List String → List String := fun r =>
        match r with
        | [i] => (sols[i.toNat!]?).getD []
        | _ => []
      let bshape := match (jField j "shapes").bind (jList (jList jNat)) with
        | some shapes => (match broadcastShape shapes with | some s => listToJson natToJson s | none => Json.null)
        | none => Json.null
      okJson (Json.mkObj [("cols", listToJson (listToJson Json.str) (numinvBatch solve "?" k n [idxCol])), ("bshape", bshape)])
  | some "broadcast" =>
    match jList (jList jNat) (jFieldD j "shapes" Json.null) with
    | none => badRequest "C06 broadcast"
    | some shapes =>
      okJson (match broadcastShape shapes with | some s => listToJson natToJson s | none => Json.null)
  | _ => badRequest "C06 op"

end Gwcs.Drv.C06
