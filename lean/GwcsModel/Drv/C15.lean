import GwcsModel.Selector
open Lean
namespace Gwcs.Drv.C15
open Gwcs Gwcs.Sel

def ratOrNan (j : Json) : Option (Option Rat) :=
  match j with
  | .str "nan" => some none
  | _ => (jRat j).map some

def handleArray (j : Json) : Json :=
  match (do
    let mask ← jList (jList jInt) (← jField j "mask")
    let pts ← jList (jList jFloat) (← jField j "pts")
    pure (mask, pts)) with
  | none => badRequest "C15 array"
  | some (mask, pts) =>
    okJson (Json.arr (pts.map (fun p =>
      match p with
      | [x, y] =>
        match floatToInt (Api.toIndexF x), floatToInt (Api.toIndexF y) with
        | some ix, some iy => exceptToJson intToJson (arrayLabelAt mask ix iy)
        | _, _ => errJson .valueErr
      | _ => badRequest "pt")).toArray)

def handleRange (j : Json) : Json :=
  match (do
    let rs ← jList (fun r => do
      match ← jArr r with
      | [lo, hi, lab] => pure (((← jRat lo), (← jRat hi)), (← jInt lab))
      | _ => none) (← jField j "ranges")
    let keys ← jList ratOrNan (← jField j "keys")
    pure (rs, keys)) with
  | none => badRequest "C15 range"
  | some (rs, keys) =>
    match mkRangeMapper rs with
    | .error e => errJson e
    | .ok rs => okJson (listToJson intToJson (keys.map (rangeLabel rs 0)))

def handleDict (j : Json) : Json :=
  match (do
    let ks ← jList (fun r => do
      match ← jArr r with
      | [k, lab] => pure ((← jRat k), (← jInt lab))
      | _ => none) (← jField j "keys")
    let atol ← jRat (← jField j "atol")
    let xs ← jList ratOrNan (← jField j "xs")
    pure (ks, atol, xs)) with
  | none => badRequest "C15 dict"
  | some (ks, atol, xs) => okJson (listToJson intToJson (xs.map (dictLabel ks atol 0)))

/-- "sel": [[label, ax, bx, ay, by]...]: (x, y) ↦ (ax·x + bx, ay·y + by) -/
def handleSelector (j : Json) : Json :=
  match (do
    let labels ← jList jInt (← jField j "labels")
    let xs ← jList (fun p => do
      match ← jArr p with
      | [x, y] => pure ((← jRat x), (← jRat y))
      | _ => none) (← jField j "xs")
    let table ← jList (fun r => do
      match ← jArr r with
      | [l, ax, bx, ay, byy] => pure ((← jInt l), (← jRat ax), (← jRat bx), (← jRat ay), (← jRat byy))
      | _ => none) (← jField j "sel")
    pure (labels, xs, table)) with
  | none => badRequest "C15 selector"
  | some (labels, xs, table) =>
    let sel : Int → Option (Rat × Rat → Option (Rat × Rat)) := fun l =>
      match table.find? (fun r => r.1 == l) with
      | some (_, ax, bx, ay, byy) => some (fun p => some (ax * p.1 + bx, ay * p.2 + byy))
      | none => none
    let out := selectorEval labels xs sel (fun l => l == 0) none
    okJson (listToJson (fun (o : Option (Rat × Rat)) => match o with
      | some (a, b) => Json.arr #[ratToJson a, ratToJson b]
      | none => Json.str "undef") out)

def handle (j : Json) : Json :=
  match jStr (jFieldD j "op" Json.null) with
  | some "array" => handleArray j
  | some "range" => handleRange j
  | some "dict" => handleDict j
  | some "selector" => handleSelector j
  | _ => badRequest "C15 op"

end Gwcs.Drv.C15
