/-
  GwcsModel.Batch — the batching skeletons of the conversion entry points: numpy broadcasting of
  input shapes, and `numerical_inverse`'s array path (reshape to (nargs, nelem) → transpose to rows →
  solve every row → transpose back → reshape to the input shape).  Row-major flat data + shape.
-/
import GwcsModel.Basic

namespace Gwcs.Batch

/-- numpy broadcasting of two shapes (aligned at the trailing axes) -/
def broadcast2 (a b : List Nat) : Option (List Nat) :=
  let rec go : List Nat → List Nat → Option (List Nat)
    | [], ys => some ys
    | xs, [] => some xs
    | x :: xs, y :: ys =>
      match go xs ys with
      | none => none
      | some r => if x = y then some (x :: r) else if x = 1 then some (y :: r) else if y = 1 then some (x :: r) else none
  (go a.reverse b.reverse).map List.reverse

def broadcastShape (shapes : List (List Nat)) : Option (List Nat) :=
  shapes.foldlM (fun acc s => broadcast2 acc s) []

def nelem (shape : List Nat) : Nat := shape.foldl (· * ·) 1

/-- row `i` of the batch: the `i`-th element of every input column -/
def rowAt {α} (cols : List (List α)) (d : α) (i : Nat) : List α := cols.map (fun c => c.getD i d)

/-- `numerical_inverse` on arrays: every row (one world point) is solved on its own, the `j`-th
    output column collects component `j` of every row's solution -/
def numinvBatch {α} (solve : List α → List α) (d : α) (nout n : Nat) (cols : List (List α)) : List (List α) :=
  let sols := (List.range n).map (fun i => solve (rowAt cols d i))
  (List.range nout).map (fun j => sols.map (fun s => s.getD j d))

/-- pointwise evaluation of a batch -/
def mapBatch {α β} (f : α → β) (xs : List α) : List β := xs.map f

end Gwcs.Batch
