/-
  GwcsModel.Wrap — the angle wrap used by the iterative solver (gwcs/wcs.py, `_vectorized_fixed_point`):
  `np.mod(d - 180.0, 360.0) - 180.0` for world residuals in degrees and `np.mod(d + np.pi, 2.0 * np.pi) - np.pi` for the longitude
  differences of the pixel-scale estimate.  Both are `d ↦ d - P * floor((d + P/2) / P)` for a period `P`; the model is over the rationals
  with an arbitrary positive period (the harness checks, on the source text, that each wrap in the solver has this form with H = P/2).
-/
namespace Gwcs.Wrap

/-- `mod(d + P/2, P) - P/2`, written with `floor` (numpy's `mod` takes the sign of the divisor) -/
def wrap (P d : Rat) : Rat := d - P * ((d + P / 2) / P).floor

/-- the form the degree residual is written in: `mod(d - P/2, P) - P/2` -/
def wrapMinus (P d : Rat) : Rat := (d - P / 2) - P * ((d - P / 2) / P).floor - P / 2

end Gwcs.Wrap
