/-
  GwcsModel.TExpr — the small transform algebra used by the *driver* to execute pipelines exactly
  (rationals).  It mirrors the astropy models the harness builds for the same term:
  Shift, Scale, Identity, Mapping, Polynomial1D/2D of degree 1 (no analytic inverse), `|`, `&`,
  a user-supplied inverse.  Theorems about pipelines never depend on this algebra: they are stated
  for arbitrary step functions (GwcsModel.Pipeline); `TExpr` supplies one lawful instance.
-/
import GwcsModel.Basic
open Lean

namespace Gwcs

inductive TExpr where
  | shift (c : Rat)
  | scale (c : Rat)
  | identity (n : Nat)
  | mapping (nin : Nat) (idx : List Nat)
  | poly1 (c0 c1 : Rat)                  -- Polynomial1D(1): no analytic inverse
  | poly2 (c00 c10 c01 : Rat)            -- Polynomial2D(1): 2 → 1, no analytic inverse
  | comp (l r : TExpr)                   -- l | r
  | stack (l r : TExpr)                  -- l & r
  | withInv (e inv : TExpr)              -- e with a user-supplied inverse
  | fixin (e : TExpr) (fixed : List (Nat × Rat))   -- astropy fix_inputs(e, {index: value})
  deriving Repr, BEq, Inhabited

namespace TExpr

def nin : TExpr → Nat
  | shift _ | scale _ | poly1 _ _ => 1
  | identity n => n
  | mapping n _ => n
  | poly2 _ _ _ => 2
  | comp l _ => l.nin
  | stack l r => l.nin + r.nin
  | withInv e _ => e.nin
  | fixin e fixed => e.nin - fixed.length

def nout : TExpr → Nat
  | shift _ | scale _ | poly1 _ _ | poly2 _ _ _ => 1
  | identity n => n
  | mapping _ idx => idx.length
  | comp _ r => r.nout
  | stack l r => l.nout + r.nout
  | withInv e _ => e.nout
  | fixin e _ => e.nout

/-- `a | b` as astropy builds it: arity mismatch is a `ModelDefinitionError` (a `TypeError`). -/
def mkComp (a b : TExpr) : Except Err TExpr :=
  if a.nout = b.nin then .ok (comp a b) else .error .typeErr

/-- inputs of the wrapped model: fixed positions take their constant, the others the free
    inputs in order -/
def mergeFixed (n : Nat) (fixed : List (Nat × Rat)) (xs : List Rat) : List Rat :=
  (((List.range n).foldl (fun (acc : List Rat × List Rat) i =>
      match fixed.find? (fun kv => kv.1 == i) with
      | some kv => (acc.1 ++ [kv.2], acc.2)
      | none => (acc.1 ++ acc.2.take 1, acc.2.drop 1)) ([], xs))).1

/-- evaluation on one point; wrong number of inputs is a `TypeError`-class error -/
def eval : TExpr → List Rat → Except Err (List Rat)
  | shift c, [x] => .ok [x + c]
  | scale c, [x] => .ok [x * c]
  | poly1 c0 c1, [x] => .ok [c0 + c1 * x]
  | poly2 c00 c10 c01, [x, y] => .ok [c00 + c10 * x + c01 * y]
  | identity n, xs => if xs.length = n then .ok xs else .error .typeErr
  | mapping n idx, xs =>
      if xs.length = n then
        idx.mapM (fun i => match xs[i]? with | some v => .ok v | none => .error .indexErr)
      else .error .typeErr
  | comp l r, xs => do let m ← l.eval xs; r.eval m
  | stack l r, xs =>
      if xs.length = l.nin + r.nin then do
        let a ← l.eval (xs.take l.nin)
        let b ← r.eval (xs.drop l.nin)
        pure (a ++ b)
      else .error .typeErr
  | withInv e _, xs => e.eval xs
  | fixin e fixed, xs =>
      if xs.length + fixed.length = e.nin then e.eval (mergeFixed e.nin fixed xs) else .error .typeErr
  | _, _ => .error .typeErr

/-- astropy's `.inverse`: user-supplied inverse wins; `(a|b)⁻¹ = b⁻¹|a⁻¹`; `(a&b)⁻¹ = a⁻¹&b⁻¹`;
    polynomials and input-dropping mappings have none (`NotImplementedError`). -/
def inverse : TExpr → Except Err TExpr
  | shift c => .ok (shift (-c))
  | scale c => .ok (scale (1 / c))
  | identity n => .ok (identity n)
  | mapping n idx =>
      match (List.range n).mapM (fun i => idx.idxOf? i) with
      | some inv => .ok (mapping idx.length inv)
      | none => .error .notImpl
  | poly1 _ _ => .error .notImpl
  | poly2 _ _ _ => .error .notImpl
  | comp l r => do let ri ← r.inverse; let li ← l.inverse; pure (comp ri li)
  | stack l r => do let li ← l.inverse; let ri ← r.inverse; pure (stack li ri)
  | withInv _ inv => .ok inv
  | fixin _ _ => .error .notImpl

partial def ofJson (j : Json) : Option TExpr := do
  let l ← jArr j
  match l with
  | [tag, a] =>
    match ← jStr tag with
    | "shift" => pure (shift (← jRat a))
    | "scale" => pure (scale (← jRat a))
    | "identity" => pure (identity (← jNat a))
    | _ => none
  | [tag, a, b] =>
    match ← jStr tag with
    | "mapping" => pure (mapping (← jNat a) (← jList jNat b))
    | "poly1" => pure (poly1 (← jRat a) (← jRat b))
    | "comp" => pure (comp (← ofJson a) (← ofJson b))
    | "stack" => pure (stack (← ofJson a) (← ofJson b))
    | "withinv" => pure (withInv (← ofJson a) (← ofJson b))
    | "fixin" => pure (fixin (← ofJson a) (← jList (fun kv => do
          match ← jArr kv with
          | [k, v] => pure ((← jNat k), (← jRat v))
          | _ => none) b))
    | _ => none
  | [tag, a, b, c] =>
    match ← jStr tag with
    | "poly2" => pure (poly2 (← jRat a) (← jRat b) (← jRat c))
    | _ => none
  | _ => none

end TExpr
end Gwcs
