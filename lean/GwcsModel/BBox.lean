/-
  GwcsModel.BBox — bounding-box masking of forward evaluation (`WCS.__call__` with
  `with_bounding_box` / `fill_value`, astropy `ModelBoundingBox.evaluate`), for an arbitrary scalar
  type with a decidable `<` and *no order axioms*: IEEE doubles (NaN incomparable to everything)
  are an instance, and so are ℚ and ℝ.
-/
import GwcsModel.Basic

namespace Gwcs.BBox

variable {α : Type} [LT α] [DecidableLT α]

/-- one coordinate is outside its closed interval -/
def outside1 (iv : α × α) (x : α) : Bool := decide (x < iv.1) || decide (iv.2 < x)

/-- a point is outside the box when some coordinate is outside its interval
    (box and point in (x, y, …) order) -/
def outside : List (α × α) → List α → Bool
  | iv :: box, x :: xs => outside1 iv x || outside box xs
  | _, _ => false

/-- forward evaluation of one point with the WCS defaults made explicit -/
def evalMasked (f : List α → List α) (nout : Nat) (box : Option (List (α × α)))
    (withBB : Bool) (fill : α) (x : List α) : List α :=
  match withBB, box with
  | true, some b => if outside b x then List.replicate nout fill else f x
  | _, _ => f x

/-- array evaluation: every point of the batch on its own -/
def evalBatch (f : List α → List α) (nout : Nat) (box : Option (List (α × α)))
    (withBB : Bool) (fill : α) (pts : List (List α)) : List (List α) :=
  pts.map (evalMasked f nout box withBB fill)

/-- `pixel_bounds`: the box as stored (F order), or `None` -/
def pixelBounds (box : Option (List (α × α))) : Option (List (α × α)) := box

/-- the separable affine transform used by the correspondence: outᵢ = xᵢ·aᵢ + bᵢ
    (astropy `Scale(a) | Shift(b)` per axis) -/
def affine [Mul α] [Add α] (ab : List (α × α)) (x : List α) : List α :=
  (ab.zip x).map (fun p => p.2 * p.1.1 + p.1.2)

end Gwcs.BBox
