/-
  GwcsModel.BBox — bounding-box masking of forward evaluation (`WCS.__call__` with
  `with_bounding_box` / `fill_value`, astropy `ModelBoundingBox.evaluate`), for an arbitrary scalar
  type with a decidable `<` and *no order axioms*: IEEE doubles (NaN incomparable to everything)
  are an instance, and so are ℚ and ℝ.
-/
import GwcsModel.Basic

namespace Gwcs.BBox

variable {α : Type} [LT α] [DecidableLT α]

/-- one coordinate is outside its closed interval -/
def outside1 (iv : α × α) (x : α) : Bool := decide (x < iv.1) || decide (iv.2 < x)

/-- a point is outside the box when some coordinate is outside its interval
    (box and point in (x, y, …) order) -/
def outside : List (α × α) → List α → Bool
  | iv :: box, x :: xs => outside1 iv x || outside box xs
  | _, _ => false

/-- forward evaluation of one point with the WCS defaults made explicit -/
def evalMasked (f : List α → List α) (nout : Nat) (box : Option (List (α × α)))
    (withBB : Bool) (fill : α) (x : List α) : List α :=
  match withBB, box with
  | true, some b => if outside b x then List.replicate nout fill else f x
  | _, _ => f x

/-- array evaluation: every point of the batch on its own -/
def evalBatch (f : List α → List α) (nout : Nat) (box : Option (List (α × α)))
    (withBB : Bool) (fill : α) (pts : List (List α)) : List (List α) :=
  pts.map (evalMasked f nout box withBB fill)

/-- `pixel_bounds`: the box as stored (F order), or `None` -/
def pixelBounds (box : Option (List (α × α))) : Option (List (α × α)) := box


/-! ### storage order

astropy's `ModelBoundingBox` keeps its intervals together with an `order` flag: `'F'` = first input first (x, y, …), `'C'` = last input
first (the order of array indices, astropy's default when a box is set on a model). gwcs' setter stores tuples as `'F'`, keeps the order
of a `ModelBoundingBox` it is handed, and masks, reports (`pixel_bounds`) and exports per *input axis*, i.e. through the `'F'` reading. -/

inductive BoxOrder where
  | F | C
deriving DecidableEq, Repr

/-- a box as stored: the interval list is in the box's own order -/
structure OBox (α : Type) where
  order : BoxOrder
  stored : List (α × α)

/-- `ModelBoundingBox.bounding_box(order='F')`: one interval per input axis, first input first -/
def OBox.toF (b : OBox α) : List (α × α) :=
  match b.order with
  | .F => b.stored
  | .C => b.stored.reverse

/-- `ModelBoundingBox.bounding_box()` with no argument: the box's own order -/
def OBox.own (b : OBox α) : List (α × α) := b.stored

/-- what the WCS setter is given: a plain tuple (read as x, y, …) or a box object with its own order -/
inductive BoxArg (α : Type) where
  | tuple (t : List (α × α))
  | obj (b : OBox α)

/-- `WCS.bounding_box = value` (validation of the length aside) -/
def setOBox : BoxArg α → OBox α
  | .tuple t => ⟨.F, t⟩
  | .obj b => b

/-- a box set directly on the astropy model with a tuple: astropy reads the tuple last input first -/
def modelBox (t : List (α × α)) : OBox α := ⟨.C, t⟩

/-- evaluation masks through the per-axis reading -/
def evalMaskedO (f : List α → List α) (nout : Nat) (box : Option (OBox α)) (withBB : Bool) (fill : α) (x : List α) : List α :=
  evalMasked f nout (box.map OBox.toF) withBB fill x

/-- the separable affine transform used by the correspondence: outᵢ = xᵢ·aᵢ + bᵢ
    (astropy `Scale(a) | Shift(b)` per axis) -/
def affine [Mul α] [Add α] (ab : List (α × α)) (x : List α) : List α :=
  (ab.zip x).map (fun p => p.2 * p.1.1 + p.1.2)

end Gwcs.BBox
