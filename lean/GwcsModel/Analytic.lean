/-
  GwcsModel.Analytic — hand-written model of `geometry.CartesianToSpherical.evaluate` (masked
  in-place fix-up at the poles, conditional wrap), generic over `ANum`.
-/
import GwcsModel.ANum

namespace Gwcs.Ana
variable {α : Type} [ANum α]

/-- `CartesianToSpherical.evaluate` for one point; `wrap360 = true` is `wrap_lon_at = 360` -/
def cartesianToSpherical (wrap360 : Bool) (x y z : α) : α × α :=
  let h := ANum.hypot x y
  let lat := ANum.rad2deg (ANum.atan2 z h)
  let lon := ANum.rad2deg (ANum.atan2 y x)
  let lon := if ANum.isZero h then lon * (0.0 : α) else lon      -- lon[h == 0] *= 0
  let lon := if wrap360 then ANum.mod360 lon else lon
  (lon, lat)

end Gwcs.Ana
