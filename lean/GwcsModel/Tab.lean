import GwcsModel.Basic
/-!
# FITS -TAB export (C11)

Model of the bookkeeping in `WCS._separable_groups` (the merge loop over the columns of the correlation
matrix) and `WCS._to_fits_tab` (node count, node positions, CRPIX/CDELT/CRVAL of a tabulated axis, NAXISj
insertion, PVi_3 indices, degenerate axes), and of the reader's side: the FITS Paper III -TAB index
`psi = CRVAL + CDELT * (p + 1 - CRPIX)` and linear interpolation in the coordinate array.
-/
namespace Gwcs.Tab

/-! ## separable groups -/

abbrev ASet := List Nat

def disjoint (a b : ASet) : Bool := a.all (fun x => !b.contains x)

/-- one backward pass `for m in range(len-1, k, -1)`: later sets are visited first, set `k` grows on the way -/
def pass (s : ASet) : List ASet → ASet × List ASet
  | [] => (s, [])
  | x :: xs =>
    let r := pass s xs
    if disjoint r.1 x then (r.1, x :: r.2) else (r.1 ++ x, r.2)

/-- `while merged:` — repeat the pass until nothing is merged -/
def absorb : Nat → ASet → List ASet → ASet × List ASet
  | 0, s, rest => (s, rest)
  | fuel + 1, s, rest =>
    let r := pass s rest
    if r.2.length = rest.length then r else absorb fuel r.1 r.2

/-- the outer `while len(axes_sets) - 1 > k` loop -/
def groups : Nat → List ASet → List ASet
  | 0, sets => sets
  | _, [] => []
  | fuel + 1, s :: rest =>
    let r := absorb (rest.length + 1) s rest
    r.1 :: groups fuel r.2

def separableGroups (sets : List ASet) : List ASet := groups sets.length sets

/-! ## which separable group is the celestial pair -/

/-- an output frame as `_separable_groups` sees it: its world axis numbers and whether it is a `CelestialFrame` -/
structure FrameI where
  axes : List Nat
  cel : Bool
  deriving Repr, Inhabited

/-- `find_frame`: the first frame that lists the axis -/
def findFrame (frames : List FrameI) (ax : Nat) : Option FrameI := frames.find? (fun f => f.axes.contains ax)

/-- the celestial test for one group (sorted world axes): two axes, the frame of the first one a 2-axis celestial frame, and the second
axis in that same frame ("celestial axes must belong to the same frame") -/
def celestialGroup (frames : List FrameI) (s : List Nat) : Bool :=
  match s with
  | [a, b] =>
    match findFrame frames a with
    | some f => f.cel && f.axes.length == 2 && f.axes.contains b
    | none => false
  | _ => false

/-! ## tabulated axis -/

def absR (x : Rat) : Rat := if x < 0 then -x else x

/-- `npix = max(2, 1 + int(ceil(abs((xmax - xmin) / s))))` -/
def npix (lo hi s : Rat) : Nat :=
  max 2 (1 + (Rat.ceil (absR ((hi - lo) / s))).toNat)

/-- `np.linspace(lo, hi, n)[k]` -/
def node (lo hi : Rat) (n k : Nat) : Rat := lo + (k : Rat) * ((hi - lo) / ((n : Rat) - 1))

/-- `cdelt = (npix - 1) / (xmax - xmin) if xmin != xmax else 1` -/
def cdelt (lo hi : Rat) (n : Nat) : Rat := if lo ≠ hi then ((n : Rat) - 1) / (hi - lo) else 1

/-- `CRPIX = gcrds[0] + 1` -/
def crpix (lo : Rat) : Rat := lo + 1

/-- FITS -TAB: the (1-based) index into the coordinate array for 0-based pixel `p`, with `CRVAL = 1` -/
def psi (lo hi : Rat) (n : Nat) (p : Rat) : Rat := 1 + cdelt lo hi n * (p + 1 - crpix lo)

/-- FITS -TAB linear interpolation in a 1-D coordinate array (1-based index `psi`, clamped to the array) -/
def interp (t : Nat → Rat) (n : Nat) (ps : Rat) : Rat :=
  let k := (Rat.floor ps).toNat          -- 1-based lower node
  if k < 1 then t 0
  else if n ≤ k then t (n - 1)
  else t (k - 1) + (ps - (k : Rat)) * (t k - t (k - 1))

/-- `NAXISj = int(max(bounding_box[j])) + 1` -/
def naxis (lo hi : Rat) : Int :=
  let m := max lo hi
  (if 0 ≤ m then m.floor else m.ceil) + 1      -- Python `int()` truncates toward zero

/-- insertion of `NAXIS{iax+1}` cards at `searchsorted(used, iax)`: the list of used header axes stays sorted -/
def insertSorted (x : Nat) : List Nat → List Nat
  | [] => [x]
  | y :: ys => if x ≤ y then x :: y :: ys else y :: insertSorted x ys

def insertAll (axes used : List Nat) : List Nat := axes.foldl (fun u a => insertSorted a u) used

/-- per world axis of a group: `PVi_3 = widx + 1` with `widx` the rank of the axis in the sorted group, and the
pixel axis its CRPIX/PC go to: the `widx`-th input axis, or a fresh degenerate axis number -/
def widx (group : List Nat) (k : Nat) : Nat := ((group.mergeSort (· ≤ ·)).idxOf k)

def pixelAxisOf (inputAxes : List Nat) (degStart : Nat) (w : Nat) : Nat :=
  if h : w < inputAxes.length then inputAxes[w] + 1 else degStart + (w - inputAxes.length)

end Gwcs.Tab
